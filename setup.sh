#!/bin/bash
# Offline build of the harness (MANIFEST.setup_cmd).  Everything comes from the cargo cache and /repo.
set -e
export CARGO_NET_OFFLINE=true
mkdir -p /verif/target /verif/evidence /verif/replays
cd /verif/harness
cp -n /repo/Cargo.lock Cargo.lock 2>/dev/null || true
cargo build --release --offline
/verif/target/release/qzv selftest
