#!/bin/bash
# Runs every registered quick check once against /repo's current tree, in order, and prints exit code and wall time.
# (Convenience for maintainers of /verif; the registered commands are the individual ./check <ID> quick.)
cd /verif || exit 2
./setup.sh > /verif/target/setup.log 2>&1 || { echo "setup failed"; tail -5 /verif/target/setup.log; exit 2; }
rc_all=0
for i in $(seq -w 1 20); do
  s=$(date +%s)
  ./check C$i quick > /verif/target/quick-C$i.log 2>&1; rc=$?
  e=$(date +%s)
  echo "C$i exit=$rc $((e-s))s $(grep -o 'wall=.*' /verif/target/quick-C$i.log | tail -1) $(grep -c '^VIOLATION' /verif/target/quick-C$i.log) violation lines"
  [ $rc -ne 0 ] && rc_all=1
done
python3-vt - <<'PY'
import json,jsonschema
jsonschema.validate(json.load(open('/verif/MANIFEST.json')),json.load(open('/root/.vp/MANIFEST.schema.json')))
sch=json.load(open('/root/.vp/EVIDENCE.schema.json'))
for i in range(1,21):
    jsonschema.validate(json.load(open('/verif/evidence/C%02d.json'%i)),sch)
print('MANIFEST.json and 20 evidence files validate')
PY
exit $rc_all
