#!/usr/bin/env python3
"""Regenerates MANIFEST.json from the table below (keeps the interface file valid at all times)."""
import json, subprocess

CHECKS = {
 "C04": dict(
    text="Bounded exhaustive exploration on the real code: every labelled diagram of the families D(s,b,Phi) and the rule-targeted neighbourhood families x every primitive rule x every argument tuple (all vertices, all ordered pairs incl. equal, boundaries, two absent ids) x both back ends; matcher / unchecked rule / checked rule executed and judged against the independent exact state-sum evaluator. Within the stated bounds nothing is sampled.",
    note="Trusted: the reference evaluator and ring arithmetic of qzv-ref (naive and variable-elimination evaluators and a gate-matrix simulator cross-validated on every run); bounds: quick <= 3 spiders / <= 2 boundaries, thorough D(3,2,Phi8) plus targeted stars/double stars/gadget pairs; larger diagrams and phases outside the alphabet are not covered.",
    technique="exhaustive input-space enumeration (small-scope model checking) of real rule code against a reference evaluator",
    ref="3/C04"),
}
NOT_YET = "check not built yet in this session (work in progress; will be claimed once its explorer exists)"

props = [json.loads(l) for l in open('/verif/properties.jsonl')]
checks, na = [], []
for p in props:
    i = p['id']
    if i in CHECKS:
        c = CHECKS[i]
        checks.append({
            "property_id": i,
            "quick_cmd": f"./check {i} quick",
            "thorough_cmd": f"./check {i} thorough",
            "evidence_file": f"/verif/evidence/{i}.json",
            "replay_cmd_template": f"./check {i} --replay {{path}}",
            "engine": "qzv",
            "level_claimed": {"category": "model_checking", "text": c["text"], "design_ref": c["ref"]},
            "level_note": c["note"],
            "technique": c["technique"],
        })
    else:
        na.append({"property_id": i, "reason": NOT_YET})
hooks = subprocess.run(["git", "-C", "/repo", "log", "--format=%h %s"], capture_output=True, text=True).stdout.splitlines()
hook_commits = [l.split()[0] for l in hooks if l.split(' ', 1)[1].startswith("verif hooks")]
m = {
 "version": 1,
 "setup_cmd": "./setup.sh",
 "hooks": {
    "guard": "cargo feature `verif-hooks` of the quizx crate (off by default)",
    "enable": "the harness depends on quizx by path with features = [\"verif-hooks\"]; `./check` rebuilds it from /repo's working tree",
    "baseline_off_cmd": "cd /repo && cargo test --workspace --no-fail-fast --offline",
    "source_commits": hook_commits,
    "add_only": True,
 },
 "engines": [
    {"name": "qzv", "path": "/verif/harness/qzv", "serves_properties": sorted(CHECKS), "kind_free_text": "hand-rolled explicit enumeration / explicit-state / choice-tree explorers executing the real quizx code, judged by the reference semantics in /verif/harness/qzv-ref"},
 ],
 "checks": checks,
 "not_applicable": na,
 "notes": "All checks run through ./check <ID> quick|thorough. Exit 0 held / 1 VIOLATION / 2 machinery failure. Known findings and fixed defects: /verif/known_findings.json.",
}
json.dump(m, open('/verif/MANIFEST.json', 'w'), indent=1)
print("claimed:", sorted(CHECKS), "not claimed:", [x['property_id'] for x in na])
