#!/usr/bin/env python3
"""Regenerates MANIFEST.json from the table below (keeps the interface file valid at all times)."""
import json, subprocess

TRUST = "Trusted: the reference semantics in /verif/harness/qzv-ref (exact ring Z[omega][1/sqrt2], naive and variable-elimination state-sum evaluators, gate-matrix simulator), cross-validated against each other at the start of every run; scalars are read through the raw-parts hook. "
def mc(text, bounds, technique, ref):
    return dict(text=text, note=TRUST + "Bounds: " + bounds + " Not covered: sizes beyond the bounds, phases outside the listed alphabets.", technique=technique, ref=ref)
CHECKS = {
 "C01": mc("Exhaustive exploration on the real code: every labelled diagram of the families D(s,b,Phi), the rule-targeted neighbourhoods (stars, double stars, gadget pairs and groups) and every circuit-derived diagram of K(q,d,A) is a seed; explicit-state BFS applies every pub fn of simplify.rs (sequences to depth 1-3, de-duplicated on the concrete graph state) and, separately, every single checked primitive rule at every vertex / ordered pair (rewrite-system BFS, every rule order) on both back ends; every reached state is judged against the root's reference tensor; panics and non-termination (watchdog) are violations.",
          "quick: D(2,2,Phi6) depth 2, D(3,1,Phi4), tolerance D(2,1), targeted k=1 + gadget groups, K(2,3,A_ct), K(3,2,A_full), rewrite system depth 3 on D(2,1,Phi6); thorough: D(3,2,Phi6), D(4,0,Phi4), D(2,2,Phi8) depth 3, K(2,4), K(3,3), K(3,5,cnot), rewrite system depth 4 on D(3,1,Phi6).",
          "explicit-state BFS over simplifier / rewrite-rule applications of the real code from exhaustively enumerated seeds, reference-evaluator oracle", "3/C01"),
 "C02": mc("Every circuit of the families K(q,d,A) (all supported gate kinds, SWAP, CCZ/Toffoli, parity phases, ancilla initialisation / post-selection both as prefix/suffix subsets and inline in every order) x 4 translation-mode combinations x both back ends is translated by the real to_graph_with_options and its reference tensor compared entry by entry with the reference gate-matrix product.",
          "quick: K(2,3,A_full), K(3,2,A_full), K(2,4,A_ct), K(3,3,anc-inline), A_anc q<=3; thorough: K(2,4,A_full), K(3,3,A_full), K(3,4,A_ct), K(4,2,A_full), K(3,4)/K(4,3) anc-inline.",
          "exhaustive enumeration of all gate sequences up to a depth, run through the real translator, against a reference simulator", "3/C02"),
 "C03": mc("Every circuit of K(q,d,A) x {flow, clifford, full} simplification x {gflow, simple-Gauss, up-to-permutation, flow(flow only)} extractor x both back ends: extraction must succeed, use only basic gates, and be projectively equal (non-zero factor) to the source under the reference simulator; up-to-permutation results are composed with the wire permutation read from the leftover graph; the CLI optimiser is run in-process on every circuit of smaller families and its printed QASM re-parsed and compared.",
          "quick: K(2,3,A_ct+swap), K(3,2,A_full), K(3,4,A_cnot), CLI K(2,2), K(3,1); thorough: K(2,4,A_ct+swap), K(3,3,A_ct), K(2,3,A_full), K(3,6,A_cnot), K(4,4,A_cnot), CLI K(2,3), K(3,2).",
          "exhaustive enumeration of all gate sequences up to a depth through the real simplify+extract pipeline, projective comparison with a reference simulator", "3/C03"),
 "C04": mc("Every labelled diagram of D(s,b,Phi) and of the rule-targeted neighbourhood families x every primitive rule x every argument tuple (all vertices, all ordered pairs incl. equal, boundaries, two absent ids) x both back ends; matcher, unchecked rule and checked rule are executed and judged: accept => no panic and reference tensor preserved; reject => checked rule returns false and the graph is ==-identical; matcher verdicts are compared across back ends.",
          "quick: D(2,2,Phi8), D(3,1,Phi4), D(2,2,Phi6) boundaries-first, targeted k=1; thorough: D(3,2,Phi8), D(3,2,Phi6) boundaries-first, D(2,3,Phi6), targeted k=3.",
          "exhaustive input-space enumeration (small-scope model checking) of real rule code against a reference evaluator", "3/C04"),
 "C05": mc("E1: closed graph-like diagrams (all labelled graphs on <= 3-4 vertices x 6 phases, isomorphism classes on 5-6 vertices, cat-k stars k = 3..6 in hosts, 6/7-T families, closed gadget groups, basis-plugged circuits) x 8 drivers (BSS first/random, BSS+cats first/random, dynamic-T, Sherlock[1,1,1]/[10,10,10], spider cutting) x {no, Clifford, full} simplification x split off/on x {sequential, parallel}: Decomposer::scalar() must equal the reference value exactly. Per-step: for every diagram every Decomp some driver can emit (deterministic choices, every ordered selection of the real random_ts under the scripted RNG and its magic-5 prefixes, every single cut, every admissible cat in every leg rotation, dynamic-T pair cuts, spider cutting) through the one-step hook: term values sum to the original. Saved terms on open diagrams: Clifford and summing to the original map. E3: the random drivers with every announced draw enumerated. E4: decompose_parallel through the parallel-map seam under a cooperative scheduler owning all threads: deviation-bounded DFS over every schedule of whole logical tasks (all 5040 schedules of a 7-term BSS step), one outcome required; real rayon pools with 1..16 threads as a differential supplement.",
          "quick: graphs <= 3 labelled / 4-5 classes, E3 unbounded on <= 4 T spiders, E4: 6 T spiders unbounded, 8 T spiders and a cat host at <= 2 deviations; thorough: <= 4 labelled, 5-6 classes, E4 up to 12 T spiders at <= 2-3 deviations (run caps reported). Not covered: rayon's real work-stealing schedule (only differentially), races inside one task segment, Sherlock's shuffle orders (its candidates are covered per step), std HashMap tie-breaking in dynamic-T (judged on exactness only).",
          "exhaustive configuration sweep + choice-tree search (scripted RNG) + deviation-bounded schedule search (cooperative scheduler over the rayon seam) on the real decomposer", "3/C05"),
 "C06": mc("`quizx sim` run in-process on every circuit of the families (SWAP, CCZ/Toffoli, idle qubits, non-Clifford+T phases): all 2^q bit strings and broadcast forms, all 4^q Pauli strings and broadcast forms, methods --cats / --bss, with and without -p, compared at 1e-9 with the reference state-vector simulation. Sampling: the sampler's Bernoulli draws are environment answers through the sampler hook; the whole outcome tree of -s 1 (and -s 2) is enumerated and at every node the probability handed to the draw must equal the conditional Born probability given the recorded prefix, lie in [0,1], and every printed sample must have non-zero probability. Malformed queries (enumerated list) must yield an error, never a panic or an answer.",
          "quick: K(2,2,A_ct+swap), K(3,2,A3 with SWAP/CCZ/Toffoli), K(2,1,A_tol); thorough: K(2,3), K(3,3), K(2,2,A_tol). In-process CLI (the binary's main only maps Err to exit status 1).",
          "exhaustive query enumeration + exhaustive outcome-tree search of the sampler (Bernoulli draws as environment answers) on the real CLI code", "3/C06"),
 "C07": mc("Part A: all ordered pairs of a Dyadic alphabet (boundary mantissas incl. full 64-bit / all-ones / overflowing products, boundary exponents, f64 constants) built through the public API: + - x judged against BigRational arithmetic on the raw parts (not flagged => exact and normalised; flagged => close), results re-compared against operands and zero (second-step ordering), cmp against the order of the reals, abs_diff_eq, f64 conversion wherever the value is a normal f64, f64 round trip. Part B: explicit-state BFS over Scalar4 expression histories (every public operation with every seed on either side), de-duplicated on raw parts, against the exact Z[omega][1/sqrt2] value of the expression over the stored constants: exactness of unflagged results, is_zero / is_one / exact_phase_and_sqrt2_pow, irrational constants flagged, complex_value() within 1e-12 of the represented value.",
          "quick: 217 dyadic values (47 k pairs), scalar histories to depth 2 from 23 seeds (~180 k states); thorough: 430 values, depth 3 from 31 seeds (state cap 6 M reported). Exponents to +-1100 / sqrt2 powers to +-2001, not the i32 extremes.",
          "exhaustive pair enumeration plus explicit-state BFS over expression histories of the real scalar types against a big-integer model", "3/C07"),
 "C08": mc("to_tensor4 and to_tensorf of every diagram of D(s,b,Phi) (closed, disconnected, bare/Hadamard wires, X spiders, isolated spiders) and of every circuit-derived diagram, and the circuit evaluator on every circuit of K(q,d,A), compared entry by entry (exactly for Tensor4 via raw parts, 1e-9 for TensorF) with the reference state sum / gate-matrix product; gates documented as unsupported must panic with that message; scalar_eq and == are judged against their definitions on all ordered pairs of small tensors.",
          "quick: D(2,2,Phi8), D(3,2,{1/4,1}), K(2,2,A_full), K(2,3,A_ct), helper pairs over 6 values; thorough: D(2,3,Phi8), D(3,2,Phi6), K(2,3,A_full), K(3,2,A_full), K(3,3,A_ct), helper pairs over 8 values (16.8 M pairs).",
          "exhaustive input-space enumeration of the real tensor evaluators against independent reference evaluators", "3/C08"),
 "C09": mc("Explicit-state search on the real structs: state = private state of the vector and the hash back end plus name bijections; transitions = add vertex, named insertion (free / hole / range / beyond-range ids; taken ids must be refused by both), remove vertex, add / remove edge, set edge type, smart edge insertion in every type / kind combination (illegal ones must panic in both), pack(true/false), executed on both back ends and on a plain reference model; BFS runs to closure under the bound; in every state: same observable graph under the bijection, same success / failure, counts = enumerations, symmetric adjacency, find_* contract, clone equal and independent, sub-graph of every vertex subset and append agree; on top of every state every data operation (type, phase, coordinates, variables, inputs / outputs edits, scalar and scalar-factor edits, x_to_z, adjoint), every ordered pair of them on states with few live vertices, and data-then-structure sequences.",
          "quick: <= 3 live vertices, ids <= 4: closure reached (~281 k states, 23 M transitions, BFS depth 18); thorough: <= 4 live vertices, ids <= 5 with a state cap (reported; not called exhaustive when hit). State key abstractions (adjacency order, hash-map layout, scalar value) are argued in DESIGN.md and in the source.",
          "explicit-state BFS to closure over graph-editing histories executing both real back ends against a reference model", "3/C09"),
 "C11": mc("adjoint, plug_inputs/plug_outputs with every basis list over {Z0,Z1,X0,X1,SKIP} of every length 0..wires, plug_input/plug_output at every position and is_identity on every diagram of D(s,b,Phi); append_graph on every ordered pair and plug on every composable ordered pair of a diagram family (Hadamard boundary edges, bare wires, cups, caps); results' reference tensors compared with tensor algebra (composition, Kronecker product, conjugate transpose, contraction with basis vectors).",
          "quick: unary D(2,2,Phi4), pairs over D(1,2,{0,1/4,1}) (183 diagrams); thorough: unary D(2,3,Phi6), pairs over D(2,2,{1/4,1}) u D(1,2,Phi8) (4361 diagrams, 19 M ordered pairs).",
          "exhaustive enumeration of diagrams, diagram pairs and argument lists through the real graph operations, tensor-algebra oracle", "3/C11"),
 "C12": mc("All ordered pairs of circuits of a small family, and for every circuit of larger families its constructed partners (itself, re-extraction, inserted cancelling pairs, commuted pair, one gate more / less, global phase -1 and i, Hadamard on a wire, wire permutation, conjugation by SWAP, extra qubit; both orders): equal_circuit_with_options (both phase modes), equal_circuit, equal_graph_with_options after no / Clifford / full simplification of one side, the tensor checkers and the dimension helpers, against exact and projective comparison of the reference unitaries: Some(true) and Some(false) must be right, None is acceptable, the tensor checker must be exactly right.",
          "quick: pairs K(2,2,A_ct+swap) (117 k), K(1,3,A_ct) (160 k), partners K(2,3,A_ct), K(3,1,A_full), K(2,1,A_tol); thorough: + pairs K(2,2,A_full), K(3,1,A_full), partners K(3,2,A_ct), K(3,2,A_full), K(2,2,A_tol). Only unitary circuits are paired.",
          "exhaustive enumeration of circuit pairs through the real equality checkers against a reference simulator", "3/C12"),
 "C14": mc("Every gate kind of the property's list x every ordered tuple of distinct qubits on 1..3 qubits x every reduced phase k/d, d <= 16, all gate sequences of a printable alphabet, and zero-gate circuits are printed and parsed back by the real code and compared structurally; an enumerated list of QASM texts (all register splits of <= 4 qubits into <= 3 registers, phase spellings, gate definitions, one text per unsupported construct) must parse to the expected gate list or return Err - a panic or a silently shorter gate list is a violation.",
          "quick: singles + K(2,2) sequences + texts; thorough: + K(2,3), K(3,2) sequences.",
          "exhaustive enumeration of circuits and QASM texts through the real printer/parser", "3/C14"),
 "C15": mc("For every circuit of K(q,d,A) with Toffoli/CCZ on every argument order and parity phases of arity 0..4: c + c.to_adjoint() is exactly the identity, to_basic_gates preserves the unitary exactly with exactly the advertised number of basic gates, every + / += variant composes maps in order, reverse twice restores, statistics are a partition, additive over gates and right on every unambiguous gate.",
          "quick: K(2,3,A_full), K(3,2,rich), K(4,1,rich); thorough: K(2,4,A_full), K(3,3,rich), K(4,2,rich).",
          "exhaustive enumeration of all gate sequences up to a depth, reference gate-matrix simulator as oracle", "3/C15"),
 "C16": mc("All p/q with q <= 64, |p| <= 3q (both sign conventions): canonical representative in (-1,1], classification predicates, scaling by -5..5, negation; all ordered pairs of canonical phases for + - += -= ==; limit_denominator for all canonical phases with q <= 100 (thorough 400) x all bounds 2..64 against a brute-force closest fraction (ties to the smaller denominator) and, row by row, against python3's fractions.Fraction.limit_denominator; float round trip on dyadic and decimal grids. Oracle: BigRational arithmetic modulo 2.",
          "quick: pairs with q <= 24 (130 k), approximation table 384 k rows; thorough: pairs with q <= 64, table q <= 400 (6.1 M rows).",
          "exhaustive enumeration of rationals, pairs and (phase, bound) tables against big-rational and Python oracles", "3/C16"),
 "C17": mc("Every 0/1 matrix of every shape up to 4x5 / 5x4 (thorough: + 6x4, 3x7, 2x7, 7x2 and all 2^25 5x5 matrices) and every matrix of structured larger families with colliding chunks, for every block size 1..cols and both reduction modes: rank vs brute-force row-space enumeration, (reduced) echelon shape, row space preserved, operations recorded on an identity proxy reproduce the result and transform an unrelated second object identically; inverse two-sided iff invertible (None for non-square / singular), null space annihilated / independent / of the right size; transpose, stacking, multiplication laws.",
          "quick: all shapes with <= 20 entries + structured 5x6; thorough: as listed.",
          "exhaustive enumeration of all matrices of small shapes through the real routines against brute-force F2 linear algebra", "3/C17"),
 "C18": mc("For every graph of the family and every initial tree random_decomp can produce (every announced RNG draw enumerated by a scripted RngCore): explicit-state BFS to closure over {leaf swap, local swap, subtree move} x every RNG answer sequence plus width / score queries (cache content is part of the state; no canonicalisation of neighbour order); in every state: no panic, cubic tree whose leaves are exactly the vertices, is_valid_for_graph, every cached rank equals the brute-force cut rank, reported width / score = recomputed = brute force. Annealer: every draw of RankwidthAnnealer::new(..).run() enumerated for 2-3 iterations over a parameter grid: result valid and no wider than the start.",
          "quick: closure on one graph per isomorphism class with 2..4 vertices (1.09 M states, 41 M transitions), 5 vertices BFS depth 2 on 12 classes, annealer 2 iterations; thorough: all labelled graphs with 2..4 vertices to closure, 5 vertices depth 3 (34 classes), 6 vertices depth 2, annealer 3 iterations. Needs the announce hook (H3).",
          "explicit-state BFS to closure with exhaustive choice-tree (scripted RNG) search on the real decomposition-tree code", "3/C18"),
}
NOT_YET = "check not built yet in this session (work in progress; will be claimed once its explorer exists)"

props = [json.loads(l) for l in open('/verif/properties.jsonl')]
checks, na = [], []
for p in props:
    i = p['id']
    if i in CHECKS:
        c = CHECKS[i]
        checks.append({
            "property_id": i,
            "quick_cmd": f"./check {i} quick",
            "thorough_cmd": f"./check {i} thorough",
            "evidence_file": f"/verif/evidence/{i}.json",
            "replay_cmd_template": f"./check {i} --replay {{path}}",
            "engine": "qzv",
            "level_claimed": {"category": "model_checking", "text": c["text"], "design_ref": c["ref"]},
            "level_note": c["note"],
            "technique": c["technique"],
        })
    else:
        na.append({"property_id": i, "reason": NOT_YET})
hooks = subprocess.run(["git", "-C", "/repo", "log", "--format=%h %s"], capture_output=True, text=True).stdout.splitlines()
hook_commits = [l.split()[0] for l in hooks if l.split(' ', 1)[1].startswith("verif hooks")]
m = {
 "version": 1,
 "setup_cmd": "./setup.sh",
 "hooks": {
    "guard": "cargo feature `verif-hooks` of the quizx crate (off by default)",
    "enable": "the harness depends on quizx by path with features = [\"verif-hooks\"]; `./check` rebuilds it from /repo's working tree",
    "baseline_off_cmd": "cd /repo && cargo test --workspace --no-fail-fast --offline",
    "source_commits": hook_commits,
    "add_only": True,
 },
 "engines": [
    {"name": "qzv", "path": "/verif/harness/qzv", "serves_properties": sorted(CHECKS), "kind_free_text": "hand-rolled explicit enumeration / explicit-state / choice-tree explorers executing the real quizx code, judged by the reference semantics in /verif/harness/qzv-ref"},
 ],
 "checks": checks,
 "not_applicable": na,
 "notes": "All checks run through ./check <ID> quick|thorough. Exit 0 held / 1 VIOLATION / 2 machinery failure. Known findings and fixed defects: /verif/known_findings.json.",
}
json.dump(m, open('/verif/MANIFEST.json', 'w'), indent=1)
print("claimed:", sorted(CHECKS), "not claimed:", [x['property_id'] for x in na])
