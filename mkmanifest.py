#!/usr/bin/env python3
"""Regenerates MANIFEST.json from the table below (keeps the interface file valid at all times)."""
import json, subprocess

TRUST = "Trusted: the reference semantics in /verif/harness/qzv-ref (exact ring Z[omega][1/sqrt2], naive and variable-elimination state-sum evaluators, gate-matrix simulator), cross-validated against each other at the start of every run; scalars are read through the raw-parts hook. "
def mc(text, bounds, technique, ref):
    return dict(text=text, note=TRUST + "Bounds: " + bounds + " Not covered: sizes beyond the bounds, phases outside the listed alphabets.", technique=technique, ref=ref)
CHECKS = {
 "C01": mc("Exhaustive exploration on the real code: every labelled diagram of the families D(s,b,Phi), the rule-targeted neighbourhoods (stars, double stars, gadget pairs and groups) and every circuit-derived diagram of K(q,d,A) is a seed; explicit-state BFS applies every pub fn of simplify.rs (sequences to depth 1-3, de-duplicated on the concrete graph state) and, separately, every single checked primitive rule at every vertex / ordered pair (rewrite-system BFS, every rule order) on both back ends; every reached state is judged against the root's reference tensor; panics and non-termination (watchdog) are violations.",
          "quick: D(2,2,Phi6) depth 2, D(3,1,Phi4), tolerance D(2,1), targeted k=1 + gadget groups, K(2,3,A_ct), K(3,2,A_full), rewrite system depth 3 on D(2,1,Phi6); thorough: D(3,2,Phi6), D(4,0,Phi4), D(2,2,Phi8) depth 3, K(2,4), K(3,3), K(3,5,cnot), rewrite system depth 4 on D(3,1,Phi6).",
          "explicit-state BFS over simplifier / rewrite-rule applications of the real code from exhaustively enumerated seeds, reference-evaluator oracle", "3/C01"),
 "C02": mc("Every circuit of the families K(q,d,A) (all supported gate kinds, SWAP, CCZ/Toffoli, parity phases, ancilla initialisation / post-selection both as prefix/suffix subsets and inline in every order) x 4 translation-mode combinations x both back ends is translated by the real to_graph_with_options and its reference tensor compared entry by entry with the reference gate-matrix product.",
          "quick: K(2,3,A_full), K(3,2,A_full), K(2,4,A_ct), K(3,3,anc-inline), A_anc q<=3; thorough: K(2,4,A_full), K(3,3,A_full), K(3,4,A_ct), K(4,2,A_full), K(3,4)/K(4,3) anc-inline.",
          "exhaustive enumeration of all gate sequences up to a depth, run through the real translator, against a reference simulator", "3/C02"),
 "C03": mc("Every circuit of K(q,d,A) x {flow, clifford, full} simplification x {gflow, simple-Gauss, up-to-permutation, flow(flow only)} extractor x both back ends: extraction must succeed, use only basic gates, and be projectively equal (non-zero factor) to the source under the reference simulator; up-to-permutation results are composed with the wire permutation read from the leftover graph; the CLI optimiser is run in-process on every circuit of smaller families and its printed QASM re-parsed and compared.",
          "quick: K(2,3,A_ct+swap), K(3,2,A_full), K(3,4,A_cnot), CLI K(2,2), K(3,1); thorough: K(2,4,A_ct+swap), K(3,3,A_ct), K(2,3,A_full), K(3,6,A_cnot), K(4,4,A_cnot), CLI K(2,3), K(3,2).",
          "exhaustive enumeration of all gate sequences up to a depth through the real simplify+extract pipeline, projective comparison with a reference simulator", "3/C03"),
 "C04": mc("Every labelled diagram of D(s,b,Phi) and of the rule-targeted neighbourhood families x every primitive rule x every argument tuple (all vertices, all ordered pairs incl. equal, boundaries, two absent ids) x both back ends; matcher, unchecked rule and checked rule are executed and judged: accept => no panic and reference tensor preserved; reject => checked rule returns false and the graph is ==-identical; matcher verdicts are compared across back ends.",
          "quick: D(2,2,Phi8), D(3,1,Phi4), D(2,2,Phi6) boundaries-first, targeted k=1; thorough: D(3,2,Phi8), D(3,2,Phi6) boundaries-first, D(2,3,Phi6), targeted k=3.",
          "exhaustive input-space enumeration (small-scope model checking) of real rule code against a reference evaluator", "3/C04"),
 "C08": mc("to_tensor4 and to_tensorf of every diagram of D(s,b,Phi) (closed, disconnected, bare/Hadamard wires, X spiders, isolated spiders) and of every circuit-derived diagram, and the circuit evaluator on every circuit of K(q,d,A), compared entry by entry (exactly for Tensor4 via raw parts, 1e-9 for TensorF) with the reference state sum / gate-matrix product; gates documented as unsupported must panic with that message; scalar_eq and == are judged against their definitions on all ordered pairs of small tensors.",
          "quick: D(2,2,Phi8), D(3,2,{1/4,1}), K(2,2,A_full), K(2,3,A_ct), helper pairs over 6 values; thorough: D(2,3,Phi8), D(3,2,Phi6), K(2,3,A_full), K(3,2,A_full), K(3,3,A_ct), helper pairs over 8 values (16.8 M pairs).",
          "exhaustive input-space enumeration of the real tensor evaluators against independent reference evaluators", "3/C08"),
 "C11": mc("adjoint, plug_inputs/plug_outputs with every basis list over {Z0,Z1,X0,X1,SKIP} of every length 0..wires, plug_input/plug_output at every position and is_identity on every diagram of D(s,b,Phi); append_graph on every ordered pair and plug on every composable ordered pair of a diagram family (Hadamard boundary edges, bare wires, cups, caps); results' reference tensors compared with tensor algebra (composition, Kronecker product, conjugate transpose, contraction with basis vectors).",
          "quick: unary D(2,2,Phi4), pairs over D(1,2,{0,1/4,1}) (183 diagrams); thorough: unary D(2,3,Phi6), pairs over D(2,2,{1/4,1}) u D(1,2,Phi8) (4361 diagrams, 19 M ordered pairs).",
          "exhaustive enumeration of diagrams, diagram pairs and argument lists through the real graph operations, tensor-algebra oracle", "3/C11"),
 "C14": mc("Every gate kind of the property's list x every ordered tuple of distinct qubits on 1..3 qubits x every reduced phase k/d, d <= 16, all gate sequences of a printable alphabet, and zero-gate circuits are printed and parsed back by the real code and compared structurally; an enumerated list of QASM texts (all register splits of <= 4 qubits into <= 3 registers, phase spellings, gate definitions, one text per unsupported construct) must parse to the expected gate list or return Err - a panic or a silently shorter gate list is a violation.",
          "quick: singles + K(2,2) sequences + texts; thorough: + K(2,3), K(3,2) sequences.",
          "exhaustive enumeration of circuits and QASM texts through the real printer/parser", "3/C14"),
 "C15": mc("For every circuit of K(q,d,A) with Toffoli/CCZ on every argument order and parity phases of arity 0..4: c + c.to_adjoint() is exactly the identity, to_basic_gates preserves the unitary exactly with exactly the advertised number of basic gates, every + / += variant composes maps in order, reverse twice restores, statistics are a partition, additive over gates and right on every unambiguous gate.",
          "quick: K(2,3,A_full), K(3,2,rich), K(4,1,rich); thorough: K(2,4,A_full), K(3,3,rich), K(4,2,rich).",
          "exhaustive enumeration of all gate sequences up to a depth, reference gate-matrix simulator as oracle", "3/C15"),
}
NOT_YET = "check not built yet in this session (work in progress; will be claimed once its explorer exists)"

props = [json.loads(l) for l in open('/verif/properties.jsonl')]
checks, na = [], []
for p in props:
    i = p['id']
    if i in CHECKS:
        c = CHECKS[i]
        checks.append({
            "property_id": i,
            "quick_cmd": f"./check {i} quick",
            "thorough_cmd": f"./check {i} thorough",
            "evidence_file": f"/verif/evidence/{i}.json",
            "replay_cmd_template": f"./check {i} --replay {{path}}",
            "engine": "qzv",
            "level_claimed": {"category": "model_checking", "text": c["text"], "design_ref": c["ref"]},
            "level_note": c["note"],
            "technique": c["technique"],
        })
    else:
        na.append({"property_id": i, "reason": NOT_YET})
hooks = subprocess.run(["git", "-C", "/repo", "log", "--format=%h %s"], capture_output=True, text=True).stdout.splitlines()
hook_commits = [l.split()[0] for l in hooks if l.split(' ', 1)[1].startswith("verif hooks")]
m = {
 "version": 1,
 "setup_cmd": "./setup.sh",
 "hooks": {
    "guard": "cargo feature `verif-hooks` of the quizx crate (off by default)",
    "enable": "the harness depends on quizx by path with features = [\"verif-hooks\"]; `./check` rebuilds it from /repo's working tree",
    "baseline_off_cmd": "cd /repo && cargo test --workspace --no-fail-fast --offline",
    "source_commits": hook_commits,
    "add_only": True,
 },
 "engines": [
    {"name": "qzv", "path": "/verif/harness/qzv", "serves_properties": sorted(CHECKS), "kind_free_text": "hand-rolled explicit enumeration / explicit-state / choice-tree explorers executing the real quizx code, judged by the reference semantics in /verif/harness/qzv-ref"},
 ],
 "checks": checks,
 "not_applicable": na,
 "notes": "All checks run through ./check <ID> quick|thorough. Exit 0 held / 1 VIOLATION / 2 machinery failure. Known findings and fixed defects: /verif/known_findings.json.",
}
json.dump(m, open('/verif/MANIFEST.json', 'w'), indent=1)
print("claimed:", sorted(CHECKS), "not claimed:", [x['property_id'] for x in na])
