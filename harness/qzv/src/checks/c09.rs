//! C09 — both graph back ends behave identically (up to vertex names) and stay internally consistent.
//!
//! E2 explicit-state search: state = (vector graph, hash graph, plain reference model, name bijections).
//! Structural layer explored breadth-first to closure under a bound on live vertices / ids; data layer = every
//! single and every ordered pair of data operations on top of every structural state.  Every transition calls
//! the real methods of both back ends; invariants are evaluated in every state.

use crate::report::*;
use num::Rational64;
use quizx::graph::*;
use quizx::params::{Expr, Parity};
use quizx::scalar::Scalar4;
use serde_json::{json, Value};
use std::collections::{BTreeMap, BTreeSet, VecDeque};
use std::time::Instant;

type VecG = quizx::vec_graph::Graph;
type HashG = quizx::hash_graph::Graph;
type L = usize; // logical vertex id of the model (never reused)

#[derive(Clone, Debug, PartialEq)]
pub struct RData {
    ty: VType,
    ph: (i64, i64),
    vars: Vec<u32>,
    qubit: f64,
    row: f64,
}

#[derive(Clone, Debug, Default)]
pub struct RefGraph {
    verts: BTreeMap<L, RData>,
    edges: BTreeMap<(L, L), EType>,
    inputs: Vec<L>,
    outputs: Vec<L>,
    factors: BTreeMap<String, u32>, // expression -> number of multiplications (scalar values compared between back ends)
}

#[derive(Clone)]
pub struct State {
    v: VecG,
    h: HashG,
    m: RefGraph,
    lv: BTreeMap<L, V>,
    lh: BTreeMap<L, V>,
    next_l: L,
}

#[derive(Clone, Debug, PartialEq)]
pub enum Op {
    AddVertex(u8),
    AddNamed(V, u8),
    RemoveVertex(L),
    AddEdge(L, L, u8),
    RemoveEdge(L, L),
    SetEdgeType(L, L, u8),
    AddEdgeSmart(L, L, u8),
    Pack(bool),
    // data layer
    SetType(L, u8),
    SetPhase(L, i64, i64),
    AddToPhase(L, i64, i64),
    SetCoord(L),
    SetQubit(L),
    SetRow(L),
    SetVars(L),
    AddToVars(L),
    SetInputs(Vec<L>),
    SetOutputs(Vec<L>),
    PushInput(L),
    PushOutput(L),
    PopInput,
    PopOutput,
    MulScalar,
    ScalarFactor(u8),
    XToZ,
    Adjoint,
}

fn ty(k: u8) -> VType {
    match k {
        0 => VType::B,
        1 => VType::Z,
        _ => VType::X,
    }
}
fn et(k: u8) -> EType {
    if k == 0 {
        EType::N
    } else {
        EType::H
    }
}
fn key2(a: L, b: L) -> (L, L) {
    (a.min(b), a.max(b))
}
fn norm_ph(n: i64, d: i64) -> (i64, i64) {
    let p = quizx::phase::Phase::new(Rational64::new(n, d)).to_rational();
    (*p.numer(), *p.denom())
}
fn add_ph(a: (i64, i64), b: (i64, i64)) -> (i64, i64) {
    let r = Rational64::new(a.0, a.1) + Rational64::new(b.0, b.1);
    norm_ph(*r.numer(), *r.denom())
}
fn xor_vars(a: &[u32], b: &[u32]) -> Vec<u32> {
    let mut s: BTreeSet<u32> = a.iter().copied().collect();
    for x in b {
        if !s.remove(x) {
            s.insert(*x);
        }
    }
    s.into_iter().collect()
}

/// canonical dump of everything observable about a back end, in logical names
fn observe<G: GraphLike>(g: &G, l2a: &BTreeMap<L, V>) -> Result<String, String> {
    let a2l: BTreeMap<V, L> = l2a.iter().map(|(&l, &a)| (a, l)).collect();
    let mut out = String::new();
    let mut vs: Vec<V> = g.vertices().collect();
    let nv = vs.len();
    vs.sort();
    vs.dedup();
    if vs.len() != nv {
        return Err("vertices() enumerates a vertex twice".into());
    }
    if g.num_vertices() != nv {
        return Err(format!("num_vertices() = {} but {} vertices are enumerated", g.num_vertices(), nv));
    }
    let live: BTreeSet<V> = vs.iter().copied().collect();
    let want: BTreeSet<V> = l2a.values().copied().collect();
    if live != want {
        return Err(format!("vertex set {:?}, expected {:?}", live, want));
    }
    let mut es: Vec<(L, L, u8)> = vec![];
    let mut ne = 0;
    for (s, t, e) in g.edges() {
        ne += 1;
        if !live.contains(&s) || !live.contains(&t) {
            return Err(format!("edge ({},{}) mentions a dead vertex", s, t));
        }
        let k = key2(a2l[&s], a2l[&t]);
        es.push((k.0, k.1, e as u8));
    }
    if g.num_edges() != ne {
        return Err(format!("num_edges() = {} but {} edges are enumerated", g.num_edges(), ne));
    }
    es.sort();
    let before = es.len();
    es.dedup();
    if es.len() != before {
        return Err("edges() enumerates an edge twice".into());
    }
    for (&l, &a) in l2a {
        let d = g.vertex_data(a);
        let r = d.phase.to_rational();
        let vars: Vec<u32> = d.vars.iter().collect();
        out += &format!("v{} {:?} {}/{} {:?} q{} r{} deg{};", l, d.ty, r.numer(), r.denom(), vars, d.qubit, d.row, g.degree(a));
        if !g.contains_vertex(a) || g.vertex_data_opt(a).is_none() || g.vertex_type_opt(a) != Some(d.ty) {
            return Err(format!("contains_vertex / *_opt deny live vertex {}", a));
        }
        // adjacency symmetric, neighbours consistent with incident edges and with the edge list
        let mut ns: Vec<(L, u8)> = vec![];
        for (w, e) in g.incident_edges(a) {
            if !live.contains(&w) {
                return Err(format!("vertex {} has dead neighbour {}", a, w));
            }
            if g.edge_type_opt(w, a) != Some(e) || g.edge_type_opt(a, w) != Some(e) || !g.connected(a, w) {
                return Err(format!("adjacency not symmetric at ({},{})", a, w));
            }
            ns.push((a2l[&w], e as u8));
        }
        ns.sort();
        let mut ns2: Vec<L> = g.neighbors(a).map(|w| a2l[&w]).collect();
        ns2.sort();
        if ns.iter().map(|x| x.0).collect::<Vec<_>>() != ns2 || ns.len() != g.degree(a) {
            return Err(format!("neighbors / incident_edges / degree disagree at {}", a));
        }
        let from_edges: Vec<(L, u8)> = es.iter().filter_map(|&(s, t, e)| if s == l && t == l { Some((l, e)) } else if s == l { Some((t, e)) } else if t == l { Some((s, e)) } else { None }).collect();
        let mut fe = from_edges;
        fe.sort();
        if fe != ns {
            return Err(format!("edges() and the adjacency of {} disagree: {:?} vs {:?}", a, fe, ns));
        }
    }
    out += &format!("E{:?};", es);
    // all pairs: connected / edge_type_opt on non-edges, and two absent ids
    let absent = [vs.last().copied().unwrap_or(0) + 3, 1000];
    for &x in &absent {
        if g.contains_vertex(x) || g.vertex_data_opt(x).is_some() || g.connected(x, vs.first().copied().unwrap_or(0)) || g.edge_type_opt(vs.first().copied().unwrap_or(0), x).is_some() {
            return Err(format!("absent vertex {} is reported present", x));
        }
    }
    let il: Vec<Option<L>> = g.inputs().iter().map(|a| a2l.get(a).copied()).collect();
    let ol: Vec<Option<L>> = g.outputs().iter().map(|a| a2l.get(a).copied()).collect();
    out += &format!("I{:?}O{:?};", il, ol);
    // find_*: returns an element satisfying the predicate iff one exists
    for want_ty in [VType::B, VType::Z, VType::X] {
        let exists = vs.iter().any(|&a| g.vertex_type(a) == want_ty);
        match g.find_vertex(|a| g.vertex_type(a) == want_ty) {
            Some(a) if live.contains(&a) && g.vertex_type(a) == want_ty => {}
            None if !exists => {}
            r => return Err(format!("find_vertex({:?}) returned {:?}, exists = {}", want_ty, r, exists)),
        }
    }
    for want_e in [EType::N, EType::H] {
        let exists = es.iter().any(|e| e.2 == want_e as u8);
        match g.find_edge(|_, _, e| e == want_e) {
            Some((s, t, e)) if e == want_e && g.edge_type_opt(s, t) == Some(want_e) => {}
            None if !exists => {}
            r => return Err(format!("find_edge({:?}) returned {:?}, exists = {}", want_e, r, exists)),
        }
    }
    let mut fs: Vec<String> = g.scalar_factors().map(|(e, _)| format!("{:?}", e)).collect();
    fs.sort();
    out += &format!("F{:?}", fs);
    Ok(out)
}

fn observe_model(m: &RefGraph) -> String {
    let mut out = String::new();
    for (&l, d) in &m.verts {
        let deg = m.edges.keys().filter(|k| k.0 == l || k.1 == l).count();
        out += &format!("v{} {:?} {}/{} {:?} q{} r{} deg{};", l, d.ty, d.ph.0, d.ph.1, d.vars, d.qubit, d.row, deg);
    }
    let es: Vec<(L, L, u8)> = m.edges.iter().map(|(k, &e)| (k.0, k.1, e as u8)).collect();
    out += &format!("E{:?};", es);
    let il: Vec<Option<L>> = m.inputs.iter().map(|&l| if m.verts.contains_key(&l) { Some(l) } else { None }).collect();
    let ol: Vec<Option<L>> = m.outputs.iter().map(|&l| if m.verts.contains_key(&l) { Some(l) } else { None }).collect();
    out += &format!("I{:?}O{:?};", il, ol);
    let fs: Vec<String> = m.factors.keys().cloned().collect();
    out += &format!("F{:?}", fs);
    out
}

fn vdata(k: u8) -> VData {
    VData { ty: ty(k), ..Default::default() }
}

fn test_vars() -> Parity {
    Parity::from(vec![0u32, 2])
}
fn test_expr(k: u8) -> Expr {
    if k == 0 {
        Expr::linear(Parity::single(1))
    } else {
        Expr::linear(Parity::from(vec![0u32, 3]))
    }
}

/// outcome of applying one operation to both back ends and the model
pub enum Outcome {
    Next(Box<State>),
    /// both back ends refused in the same way (Err / panic); no successor
    BothRefused,
    /// both back ends returned Err and the observable graph is unchanged; the state is handed back so that the search
    /// continues from it: with equal private state its key equals the parent's, otherwise it is a new state
    RefusedUnchanged(Box<State>),
    Violation(String, String),
}

fn apply_backend<G: GraphLike>(g: &mut G, l2a: &mut BTreeMap<L, V>, op: &Op, new_l: L, removed_marker: &mut Vec<V>) -> Result<Result<(), String>, String> {
    // Ok(Ok) applied, Ok(Err) refused with Err, Err(panic)
    let a = |l: &L, m: &BTreeMap<L, V>| m[l];
    let r = guarded(|| -> Result<(), String> {
        match op {
            Op::AddVertex(k) => {
                let v = g.add_vertex(ty(*k));
                l2a.insert(new_l, v);
            }
            Op::AddNamed(name, k) => {
                g.add_named_vertex_with_data(*name, vdata(*k)).map_err(|e| e.to_string())?;
                l2a.insert(new_l, *name);
            }
            Op::RemoveVertex(l) => {
                let v = a(l, l2a);
                g.remove_vertex(v);
                l2a.remove(l);
                removed_marker.push(v);
            }
            Op::AddEdge(s, t, e) => g.add_edge_with_type(a(s, l2a), a(t, l2a), et(*e)),
            Op::RemoveEdge(s, t) => g.remove_edge(a(s, l2a), a(t, l2a)),
            Op::SetEdgeType(s, t, e) => g.set_edge_type(a(s, l2a), a(t, l2a), et(*e)),
            Op::AddEdgeSmart(s, t, e) => g.add_edge_smart(a(s, l2a), a(t, l2a), et(*e)),
            Op::Pack(force) => {
                let before: Vec<V> = {
                    let mut x: Vec<V> = g.vertices().collect();
                    x.sort();
                    x
                };
                g.pack(*force);
                let mut after: Vec<V> = g.vertices().collect();
                after.sort();
                if after != before {
                    // compaction: the only admissible renaming is order preserving onto 0..n
                    let rank: BTreeMap<V, V> = before.iter().enumerate().map(|(i, &v)| (v, i)).collect();
                    for v in l2a.values_mut() {
                        *v = rank[v];
                    }
                }
            }
            Op::SetType(l, k) => g.set_vertex_type(a(l, l2a), ty(*k)),
            Op::SetPhase(l, n, d) => g.set_phase(a(l, l2a), Rational64::new(*n, *d)),
            Op::AddToPhase(l, n, d) => g.add_to_phase(a(l, l2a), Rational64::new(*n, *d)),
            Op::SetCoord(l) => g.set_coord(a(l, l2a), Coord::new(1.5, -2.0)),
            Op::SetQubit(l) => g.set_qubit(a(l, l2a), 7.125),
            Op::SetRow(l) => g.set_row(a(l, l2a), -1.25),
            Op::SetVars(l) => g.set_vars(a(l, l2a), test_vars()),
            Op::AddToVars(l) => g.add_to_vars(a(l, l2a), &Parity::from(vec![2u32, 5])),
            Op::SetInputs(ls) => g.set_inputs(ls.iter().map(|l| a(l, l2a)).collect()),
            Op::SetOutputs(ls) => g.set_outputs(ls.iter().map(|l| a(l, l2a)).collect()),
            Op::PushInput(l) => g.inputs_mut().push(a(l, l2a)),
            Op::PushOutput(l) => g.outputs_mut().push(a(l, l2a)),
            Op::PopInput => {
                g.inputs_mut().remove(0);
            }
            Op::PopOutput => {
                g.outputs_mut().remove(0);
            }
            Op::MulScalar => *g.scalar_mut() *= Scalar4::new([0, 1, 0, 0], -1),
            Op::ScalarFactor(k) => g.mul_scalar_factor(test_expr(*k), Scalar4::new([0, 0, 1, 0], 0)),
            Op::XToZ => g.x_to_z(),
            Op::Adjoint => g.adjoint(),
        }
        Ok(())
    });
    r
}

fn apply_model(m: &mut RefGraph, op: &Op, new_l: L) -> bool {
    // returns false when the model says the operation must be refused
    match op {
        Op::AddVertex(k) | Op::AddNamed(_, k) => {
            m.verts.insert(new_l, RData { ty: ty(*k), ph: (0, 1), vars: vec![], qubit: 0.0, row: 0.0 });
        }
        Op::RemoveVertex(l) => {
            m.verts.remove(l);
            m.edges.retain(|k, _| k.0 != *l && k.1 != *l);
        }
        Op::AddEdge(s, t, e) => {
            m.edges.insert(key2(*s, *t), et(*e));
        }
        Op::RemoveEdge(s, t) => {
            m.edges.remove(&key2(*s, *t));
        }
        Op::SetEdgeType(s, t, e) => {
            m.edges.insert(key2(*s, *t), et(*e));
        }
        Op::AddEdgeSmart(s, t, e) => {
            let st = m.verts[s].ty;
            let tt = m.verts[t].ty;
            let e = et(*e);
            let pi = (1, 1);
            if s == t {
                if st == VType::B {
                    return false;
                }
                if e == EType::H {
                    let p = m.verts[s].ph;
                    m.verts.get_mut(s).unwrap().ph = add_ph(p, pi);
                }
            } else if let Some(&e0) = m.edges.get(&key2(*s, *t)) {
                let same = match (st, tt) {
                    (VType::Z, VType::Z) | (VType::X, VType::X) => true,
                    (VType::Z, VType::X) | (VType::X, VType::Z) => false,
                    _ => return false,
                };
                // (remove edge?, new type?, add pi to s?)
                let (remove, newty, flip) = match (same, e0, e) {
                    (true, EType::N, EType::N) => (false, None, false),
                    (true, EType::H, EType::H) => (true, None, false),
                    (true, EType::H, EType::N) => (false, Some(EType::N), true),
                    (true, EType::N, EType::H) => (false, None, true),
                    (false, EType::N, EType::N) => (true, None, false),
                    (false, EType::N, EType::H) => (false, Some(EType::H), true),
                    (false, EType::H, EType::N) => (false, None, true),
                    (false, EType::H, EType::H) => (false, None, false),
                    _ => return false,
                };
                if remove {
                    m.edges.remove(&key2(*s, *t));
                }
                if let Some(n) = newty {
                    m.edges.insert(key2(*s, *t), n);
                }
                if flip {
                    let p = m.verts[s].ph;
                    m.verts.get_mut(s).unwrap().ph = add_ph(p, pi);
                }
            } else {
                m.edges.insert(key2(*s, *t), e);
            }
        }
        Op::Pack(_) => {}
        Op::SetType(l, k) => m.verts.get_mut(l).unwrap().ty = ty(*k),
        Op::SetPhase(l, n, d) => m.verts.get_mut(l).unwrap().ph = norm_ph(*n, *d),
        Op::AddToPhase(l, n, d) => {
            let p = m.verts[l].ph;
            m.verts.get_mut(l).unwrap().ph = add_ph(p, (*n, *d));
        }
        Op::SetCoord(l) => {
            let d = m.verts.get_mut(l).unwrap();
            d.row = 1.5;
            d.qubit = -2.0;
        }
        Op::SetQubit(l) => m.verts.get_mut(l).unwrap().qubit = 7.125,
        Op::SetRow(l) => m.verts.get_mut(l).unwrap().row = -1.25,
        Op::SetVars(l) => m.verts.get_mut(l).unwrap().vars = vec![0, 2],
        Op::AddToVars(l) => {
            let v = xor_vars(&m.verts[l].vars, &[2, 5]);
            m.verts.get_mut(l).unwrap().vars = v;
        }
        Op::SetInputs(ls) => m.inputs = ls.clone(),
        Op::SetOutputs(ls) => m.outputs = ls.clone(),
        Op::PushInput(l) => m.inputs.push(*l),
        Op::PushOutput(l) => m.outputs.push(*l),
        Op::PopInput => {
            if m.inputs.is_empty() {
                return false;
            }
            m.inputs.remove(0);
        }
        Op::PopOutput => {
            if m.outputs.is_empty() {
                return false;
            }
            m.outputs.remove(0);
        }
        Op::MulScalar => {}
        Op::ScalarFactor(k) => {
            *m.factors.entry(format!("{:?}", test_expr(*k))).or_insert(0) += 1;
        }
        Op::XToZ => {
            let xs: Vec<L> = m.verts.iter().filter(|(_, d)| d.ty == VType::X).map(|(&l, _)| l).collect();
            for l in xs {
                m.verts.get_mut(&l).unwrap().ty = VType::Z;
                for (k, e) in m.edges.iter_mut() {
                    if (k.0 == l) != (k.1 == l) {
                        *e = e.opposite();
                    }
                }
            }
        }
        Op::Adjoint => {
            for d in m.verts.values_mut() {
                d.ph = norm_ph(-d.ph.0, d.ph.1);
            }
            std::mem::swap(&mut m.inputs, &mut m.outputs);
        }
    }
    true
}

pub fn step(s: &State, op: &Op) -> Outcome {
    let mut n = s.clone();
    let new_l = n.next_l;
    let name_taken = matches!(op, Op::AddNamed(name, _) if s.lv.values().any(|a| a == name));
    let expect_ok = if name_taken { false } else { apply_model(&mut n.m, op, new_l) };
    let mut rem_v = vec![];
    let mut rem_h = vec![];
    let rv = apply_backend(&mut n.v, &mut n.lv, op, new_l, &mut rem_v);
    let rh = apply_backend(&mut n.h, &mut n.lh, op, new_l, &mut rem_h);
    let kind = |r: &Result<Result<(), String>, String>| match r {
        Ok(Ok(())) => "ok",
        Ok(Err(_)) => "err",
        Err(_) => "panic",
    };
    let opname = format!("{:?}", op).split('(').next().unwrap_or("").to_string();
    if kind(&rv) != kind(&rh) {
        return Outcome::Violation(format!("{}|outcome-differs|vec={}|hash={}", opname, kind(&rv), kind(&rh)), format!("vector back end: {:?}; hash back end: {:?}", rv, rh));
    }
    if kind(&rv) != "ok" {
        if expect_ok {
            return Outcome::Violation(format!("{}|valid-operation-refused|{}", opname, kind(&rv)), format!("both back ends refused a valid operation: {:?}", rv));
        }
        // an operation refused with Err must leave both graphs exactly as they were (a panic may not: no claim)
        if kind(&rv) == "err" {
            let want = observe_model(&s.m);
            for (name, got) in [("vec", guarded(|| observe(&n.v, &n.lv))), ("hash", guarded(|| observe(&n.h, &n.lh)))] {
                match got {
                    Err(p) => return Outcome::Violation(format!("{}|{}|refused-operation-changed-state|observe-panic", opname, name), p),
                    Ok(Err(e)) => return Outcome::Violation(format!("{}|{}|refused-operation-changed-state|inconsistent", opname, name), e),
                    Ok(Ok(o)) => {
                        if o != want {
                            return Outcome::Violation(format!("{}|{}|refused-operation-changed-state", opname, name), format!("observed {}\n expected {}", o, want));
                        }
                    }
                }
            }
        }
        if kind(&rv) == "err" {
            return Outcome::RefusedUnchanged(Box::new(n));
        }
        return Outcome::BothRefused;
    }
    if !expect_ok {
        return Outcome::Violation(format!("{}|invalid-operation-accepted", opname), "both back ends accepted an operation that must be refused".into());
    }
    if matches!(op, Op::AddVertex(_) | Op::AddNamed(_, _)) {
        n.next_l += 1;
    }
    // observable agreement
    let want = observe_model(&n.m);
    for (name, got) in [("vec", guarded(|| observe(&n.v, &n.lv))), ("hash", guarded(|| observe(&n.h, &n.lh)))] {
        match got {
            Err(p) => return Outcome::Violation(format!("{}|{}|observe-panic|{}", opname, name, last_panic_site()), p),
            Ok(Err(e)) => return Outcome::Violation(format!("{}|{}|inconsistent", opname, name), e),
            Ok(Ok(o)) => {
                if o != want {
                    return Outcome::Violation(format!("{}|{}|differs-from-model", opname, name), format!("observed {}\n expected {}", o, want));
                }
            }
        }
    }
    if n.v.scalar() != n.h.scalar() {
        return Outcome::Violation(format!("{}|scalar-differs", opname), format!("vec {:?} hash {:?}", n.v.scalar(), n.h.scalar()));
    }
    let mut fv: Vec<String> = n.v.scalar_factors().map(|(e, s)| format!("{:?}={:?}", e, s)).collect();
    let mut fh: Vec<String> = n.h.scalar_factors().map(|(e, s)| format!("{:?}={:?}", e, s)).collect();
    fv.sort();
    fh.sort();
    if fv != fh {
        return Outcome::Violation(format!("{}|scalar-factors-differ", opname), format!("vec {:?} hash {:?}", fv, fh));
    }
    // the value of every factor is the product of everything multiplied into it: i^count (the model counts)
    for k in 0..2u8 {
        let e = test_expr(k);
        let want = n.m.factors.get(&format!("{:?}", e)).map(|&c| {
            let mut s = Scalar4::new([1, 0, 0, 0], 0);
            for _ in 0..c {
                s *= Scalar4::new([0, 0, 1, 0], 0);
            }
            s
        });
        for (name, got) in [("vec", n.v.get_scalar_factor(&e)), ("hash", n.h.get_scalar_factor(&e))] {
            if got != want {
                return Outcome::Violation(format!("{}|{}|scalar-factor-value", opname, name), format!("factor of {:?} is {:?}, the product of the factors multiplied in is {:?}", e, got, want));
            }
        }
    }
    Outcome::Next(Box::new(n))
}

/// clone yields an equal, independent graph; sub-graph and append agree between back ends
fn clone_and_derived(s: &State) -> Option<(String, String)> {
    let r = guarded(|| -> Option<(String, String)> {
        let (cv, ch) = (s.v.clone(), s.h.clone());
        if cv != s.v || ch != s.h {
            return Some(("clone|not-equal".into(), "a clone is not == its original".into()));
        }
        let (mut cv, mut ch) = (cv, ch);
        let kv = format!("{:?}", s.v);
        let kh = format!("{:?}", s.h);
        let a = cv.add_vertex(VType::Z);
        let b = ch.add_vertex(VType::Z);
        if let Some(&l) = s.lv.keys().next() {
            cv.add_edge(a, s.lv[&l]);
            ch.add_edge(b, s.lh[&l]);
            cv.remove_vertex(s.lv[&l]);
            ch.remove_vertex(s.lh[&l]);
        }
        cv.scalar_mut().mul_sqrt2_pow(3);
        ch.inputs_mut().push(b);
        if format!("{:?}", s.v) != kv || format!("{:?}", s.h) != kh {
            return Some(("clone|not-independent".into(), "mutating a clone changed the original".into()));
        }
        // sub-graph of every vertex subset (vertices handed over in ascending logical order)
        let ls: Vec<L> = s.lv.keys().copied().collect();
        for mask in 0..(1u32 << ls.len()) {
            let sub: Vec<L> = ls.iter().enumerate().filter(|(i, _)| (mask >> i) & 1 == 1).map(|(_, &l)| l).collect();
            let gv = s.v.subgraph_from_vertices(sub.iter().map(|l| s.lv[l]).collect());
            let gh = s.h.subgraph_from_vertices(sub.iter().map(|l| s.lh[l]).collect());
            // fresh graphs name their vertices in insertion order: identical names expected in both
            let id: BTreeMap<L, V> = (0..sub.len()).map(|i| (i, i)).collect();
            let (ov, oh) = (observe(&gv, &id), observe(&gh, &id));
            let mut mm = RefGraph::default();
            for (i, l) in sub.iter().enumerate() {
                mm.verts.insert(i, s.m.verts[l].clone());
            }
            for (k, e) in &s.m.edges {
                if let (Some(i), Some(j)) = (sub.iter().position(|x| *x == k.0), sub.iter().position(|x| *x == k.1)) {
                    mm.edges.insert(key2(i, j), *e);
                }
            }
            let want = observe_model(&mm);
            if ov.as_ref().ok() != Some(&want) || oh.as_ref().ok() != Some(&want) {
                return Some(("subgraph_from_vertices|differs".into(), format!("subset {:?}: vec {:?} hash {:?} expected {}", sub, ov, oh, want)));
            }
        }
        // append the current graph to a copy of itself
        let (mut av, mut ah) = (s.v.clone(), s.h.clone());
        let mv = av.append_graph(&s.v);
        let mh = ah.append_graph(&s.h);
        let mut lv2 = s.lv.clone();
        let mut lh2 = s.lh.clone();
        let mut mm = s.m.clone();
        let off = 1000;
        for (&l, d) in &s.m.verts {
            mm.verts.insert(l + off, d.clone());
            lv2.insert(l + off, mv[&s.lv[&l]]);
            lh2.insert(l + off, mh[&s.lh[&l]]);
        }
        for (k, e) in &s.m.edges {
            mm.edges.insert((k.0 + off, k.1 + off), *e);
        }
        let want = observe_model(&mm);
        let (ov, oh) = (observe(&av, &lv2), observe(&ah, &lh2));
        if ov.as_ref().ok() != Some(&want) || oh.as_ref().ok() != Some(&want) || av.scalar() != ah.scalar() {
            return Some(("append_graph|differs".into(), format!("vec {:?} hash {:?} expected {}", ov, oh, want)));
        }
        None
    });
    match r {
        Ok(x) => x,
        Err(p) => Some((format!("derived|panic|{}", last_panic_site()), p)),
    }
}

fn structural_ops(s: &State, max_live: usize, max_id: usize) -> Vec<Op> {
    let mut ops = vec![];
    let ls: Vec<L> = s.m.verts.keys().copied().collect();
    let range_v = s.v.vindex();
    if ls.len() < max_live && range_v <= max_id && s.h.vindex() <= max_id {
        for k in 0..3 {
            ops.push(Op::AddVertex(k));
        }
    }
    // named insertion: ids free in both (-> Ok in both) or used in both (-> Err in both)
    let used_v: BTreeSet<V> = s.lv.values().copied().collect();
    let used_h: BTreeSet<V> = s.lh.values().copied().collect();
    for name in 0..=(max_id + 2) {
        let (uv, uh) = (used_v.contains(&name), used_h.contains(&name));
        if uv != uh {
            continue; // the name means different things in the two back ends: not a valid common argument
        }
        if uv || (ls.len() < max_live && name <= max_id) {
            ops.push(Op::AddNamed(name, 1));
        }
    }
    for &l in &ls {
        ops.push(Op::RemoveVertex(l));
    }
    for (i, &a) in ls.iter().enumerate() {
        for &b in &ls[i + 1..] {
            match s.m.edges.get(&key2(a, b)) {
                None => {
                    ops.push(Op::AddEdge(a, b, 0));
                    ops.push(Op::AddEdge(b, a, 1));
                }
                Some(&e) => {
                    ops.push(Op::RemoveEdge(a, b));
                    ops.push(Op::SetEdgeType(b, a, if e == EType::N { 1 } else { 0 }));
                }
            }
            for e in 0..2 {
                ops.push(Op::AddEdgeSmart(a, b, e));
                ops.push(Op::AddEdgeSmart(b, a, e));
            }
        }
        for e in 0..2 {
            ops.push(Op::AddEdgeSmart(a, a, e));
        }
    }
    ops.push(Op::Pack(true));
    ops.push(Op::Pack(false));
    ops
}

fn data_ops(s: &State) -> Vec<Op> {
    let mut ops = vec![];
    let ls: Vec<L> = s.m.verts.keys().copied().collect();
    for &l in &ls {
        for k in 0..3 {
            ops.push(Op::SetType(l, k));
        }
        ops.push(Op::SetPhase(l, 1, 4));
        ops.push(Op::SetPhase(l, 5, 2));
        ops.push(Op::AddToPhase(l, 3, 4));
        ops.push(Op::SetCoord(l));
        ops.push(Op::SetQubit(l));
        ops.push(Op::SetRow(l));
        ops.push(Op::SetVars(l));
        ops.push(Op::AddToVars(l));
        ops.push(Op::PushInput(l));
        ops.push(Op::PushOutput(l));
    }
    ops.push(Op::SetInputs(ls.clone()));
    ops.push(Op::SetOutputs(ls.iter().rev().copied().collect()));
    ops.push(Op::SetInputs(vec![]));
    ops.push(Op::PopInput);
    ops.push(Op::PopOutput);
    ops.push(Op::MulScalar);
    ops.push(Op::ScalarFactor(0));
    ops.push(Op::ScalarFactor(1));
    ops.push(Op::XToZ);
    ops.push(Op::Adjoint);
    ops
}

fn state_key(s: &State) -> String {
    // Canonical key, with the argument for every abstraction:
    //  * logical ids are replaced by the vector back end's ids (the bijection vec id -> hash id is part of the key),
    //    so histories that differ only in how many vertices were ever created coincide;
    //  * the vector back end contributes its slot table, its hole stack IN ORDER (decides which id is reused next),
    //    its counters and its adjacency lists as sorted sets: list order only influences enumeration order, which
    //    the property excludes, and no method's result content depends on it for simple graphs;
    //  * the hash back end contributes its fresh index and counters; its vertex / edge content is checked equal to
    //    the model on every transition, and its hash-map layout only influences enumeration order;
    //  * the scalar is dropped: no operation branches on it; equality across back ends is checked on every transition.
    let dbg = format!("{:?}", s.v);
    // the Debug rendering lists the fields in declaration order: vdata, edata, holes, inputs, outputs, numv, nume, scalar, ...
    let holes = dbg.split("holes: ").nth(1).and_then(|x| x.split(']').next()).unwrap_or("").to_string();
    let a2l: BTreeMap<V, L> = s.lv.iter().map(|(&l, &a)| (a, l)).collect();
    let mut out = format!("len{} holes[{}] nv{} ne{} | hfresh{} hnv{} hne{} |", s.v.vindex(), holes, s.v.num_vertices(), s.v.num_edges(), s.h.vindex(), s.h.num_vertices(), s.h.num_edges());
    for (&a, &l) in &a2l {
        let d = &s.m.verts[&l];
        let mut ns: Vec<(V, u8)> = s.v.incident_edges(a).map(|(w, e)| (w, e as u8)).collect();
        ns.sort();
        out += &format!("{}>{}:{:?}{}/{}{:?}q{}r{}{:?};", a, s.lh[&l], d.ty, d.ph.0, d.ph.1, d.vars, d.qubit, d.row, ns);
    }
    let ins: Vec<Option<V>> = s.m.inputs.iter().map(|l| s.lv.get(l).copied()).collect();
    let outs: Vec<Option<V>> = s.m.outputs.iter().map(|l| s.lv.get(l).copied()).collect();
    out += &format!("I{:?}O{:?}F{:?}", ins, outs, s.m.factors);
    out
}

fn op_json(path: &[Op]) -> Value {
    json!(path.iter().map(|o| format!("{:?}", o)).collect::<Vec<_>>())
}

pub fn explore(rep: &mut Report, max_live: usize, max_id: usize, depth_cap: usize, state_cap: usize, data_layer: usize, data2_max_live: usize) {
    let t0 = Instant::now();
    let init = State { v: VecG::new(), h: HashG::new(), m: RefGraph::default(), lv: BTreeMap::new(), lh: BTreeMap::new(), next_l: 0 };
    // the set of visited states: 128-bit hashes of the canonical key, sharded so that successors are de-duplicated inside
    // the parallel phase (materialising every successor before the merge needed > 60 GB at depth 7 of the thorough tier)
    fn h128(k: &str) -> u128 {
        use std::hash::{Hash, Hasher};
        let mut a = std::collections::hash_map::DefaultHasher::new();
        k.hash(&mut a);
        let mut b = std::collections::hash_map::DefaultHasher::new();
        (k, 0x9E37u16).hash(&mut b);
        ((a.finish() as u128) << 64) | b.finish() as u128
    }
    const SHARDS: usize = 256;
    let seen: Vec<std::sync::Mutex<std::collections::HashSet<u128>>> = (0..SHARDS).map(|_| std::sync::Mutex::new(std::collections::HashSet::new())).collect();
    let nseen = std::sync::atomic::AtomicUsize::new(1);
    let cap_hit = std::sync::atomic::AtomicBool::new(false);
    {
        let h = h128(&state_key(&init));
        seen[(h % SHARDS as u128) as usize].lock().unwrap().insert(h);
    }
    let mut frontier: Vec<(State, Vec<Op>)> = vec![(init, vec![])];
    type Succ = (State, Vec<Op>);
    let mut total = Stats::default();
    total.inc("states");
    let mut depth = 0;
    let mut capped: Option<String> = None;
    let mut max_depth_reached = 0;
    while !frontier.is_empty() {
        if depth >= depth_cap {
            capped = Some(format!("depth cap {} reached with {} frontier states", depth_cap, frontier.len()));
            break;
        }
        use rayon::prelude::*;
        let results: Vec<(Stats, Vec<Succ>)> = frontier
            .par_iter()
            .map(|(s, path)| {
                let mut st = Stats::default();
                let mut succ = vec![];
                st.inc("cases");
                // invariants that do not change the state
                if let Some((sig, detail)) = clone_and_derived(s) {
                    st.violation(Violation { sig, detail, witness: json!({"kind": "history", "ops": op_json(path)}) });
                }
                let mut offer = |n: State, p2: Vec<Op>, st: &mut Stats| {
                    // the key reads the private state through public queries: a panic there is the subject's
                    let key = match guarded(|| state_key(&n)) {
                        Ok(k) => k,
                        Err(p) => {
                            st.violation(Violation { sig: format!("query-panic-after|{}|{}", p2.last().map(|o| format!("{:?}", o).split('(').next().unwrap_or("").to_string()).unwrap_or_default(), last_panic_site()), detail: p, witness: json!({"kind": "history", "ops": op_json(&p2)}) });
                            return;
                        }
                    };
                    let h = h128(&key);
                    if nseen.load(std::sync::atomic::Ordering::Relaxed) >= state_cap {
                        cap_hit.store(true, std::sync::atomic::Ordering::Relaxed);
                        return;
                    }
                    if seen[(h % SHARDS as u128) as usize].lock().unwrap().insert(h) {
                        nseen.fetch_add(1, std::sync::atomic::Ordering::Relaxed);
                        st.inc("states");
                        succ.push((n, p2));
                    }
                };
                for op in structural_ops(s, max_live, max_id) {
                    st.inc("transitions");
                    st.inc("evaluations");
                    let mut p2 = path.clone();
                    p2.push(op.clone());
                    match step(s, &op) {
                        Outcome::Next(n) => {
                            st.inc("nontrivial");
                            offer(*n, p2, &mut st);
                        }
                        Outcome::BothRefused => st.inc("refused_in_both"),
                        Outcome::RefusedUnchanged(n) => {
                            st.inc("refused_in_both");
                            offer(*n, p2, &mut st);
                        }
                        Outcome::Violation(sig, detail) => st.violation(Violation { sig, detail, witness: json!({"kind": "history", "ops": op_json(&p2)}) }),
                    }
                }
                // data layer on top of this structural state
                let dops = if data_layer >= 1 { data_ops(s) } else { vec![] };
                let data_depth2 = data_layer >= 2 && s.m.verts.len() <= data2_max_live;
                for d1 in &dops {
                    st.inc("transitions");
                    st.inc("evaluations");
                    match step(s, d1) {
                        Outcome::Next(n1) => {
                            if data_depth2 {
                                for d2 in data_ops(&n1) {
                                    st.inc("transitions");
                                    st.inc("evaluations");
                                    if let Outcome::Violation(sig, detail) = step(&n1, &d2) {
                                        let mut p2 = path.clone();
                                        p2.push(d1.clone());
                                        p2.push(d2.clone());
                                        st.violation(Violation { sig: format!("data2|{}", sig), detail, witness: json!({"kind": "history", "ops": op_json(&p2)}) });
                                    }
                                }
                                // a structural operation after a data operation (data survives structure)
                                for op in structural_ops(&n1, max_live, max_id).into_iter().filter(|o| matches!(o, Op::RemoveVertex(_) | Op::Pack(_) | Op::AddEdgeSmart(_, _, _) | Op::AddNamed(_, _))) {
                                    st.inc("transitions");
                                    st.inc("evaluations");
                                    if let Outcome::Violation(sig, detail) = step(&n1, &op) {
                                        let mut p2 = path.clone();
                                        p2.push(d1.clone());
                                        p2.push(op.clone());
                                        st.violation(Violation { sig: format!("data+struct|{}", sig), detail, witness: json!({"kind": "history", "ops": op_json(&p2)}) });
                                    }
                                }
                            }
                        }
                        Outcome::BothRefused | Outcome::RefusedUnchanged(_) => st.inc("refused_in_both"),
                        Outcome::Violation(sig, detail) => {
                            let mut p2 = path.clone();
                            p2.push(d1.clone());
                            st.violation(Violation { sig: format!("data|{}", sig), detail, witness: json!({"kind": "history", "ops": op_json(&p2)}) });
                        }
                    }
                }
                (st, succ)
            })
            .collect();
        let mut next = vec![];
        for (st, succ) in results {
            total = total.merge(st);
            next.extend(succ);
        }
        if cap_hit.load(std::sync::atomic::Ordering::Relaxed) {
            capped = Some(format!("state cap {} reached at depth {}", state_cap, depth + 1));
        }
        depth += 1;
        if !next.is_empty() {
            max_depth_reached = depth;
        }
        eprintln!("[C09] depth {} : {} new states (total {})", depth, next.len(), nseen.load(std::sync::atomic::Ordering::Relaxed));
        if let Some((_, p)) = next.first() {
            total.sample(4, || op_json(p));
        }
        frontier = next;
    }
    rep.extra.insert("bfs_depth_reached".into(), json!(max_depth_reached));
    rep.extra.insert("closure_reached".into(), json!(capped.is_none()));
    rep.absorb(
        &format!("structural closure (<= {} live vertices, ids <= {})", max_live, max_id),
        "BFS over add vertex (B/Z/X), named insertion (free ids incl. holes, range, range+2; existing ids must be refused by both), remove vertex, add/remove edge, set edge type, smart edge insertion in every type/kind combination (illegal ones must panic in both), pack(true/false); clone / sub-graph of every subset / append checked in every state; data operations (single and ordered pairs, and followed by a structural operation) on top of every state",
        capped.is_none(),
        capped,
        t0,
        total,
    );
}

pub fn run(rep: &mut Report) {
    rep.rule = "state = concrete private state of both real structs (Debug rendering: slot tables, hole stack order, adjacency order, counters, fresh index) plus the name bijections; transition = one public graph operation executed on both back ends and on the plain reference model; invariants (same observable graph under the bijection, same success/failure, counts = enumerations, symmetric adjacency, find_* contract, clone equal and independent, sub-graph / append agreement, pack = one order-preserving renaming applied to edges, inputs and outputs) hold in every state; non-trivial = operation accepted and all observations agreed".into();
    rep.assume("operations are issued with valid arguments only (no second raw edge on a pair, no raw self-loop, live vertices, names that mean the same thing in both back ends); enumeration order and vindex are not compared; the scalar is excluded from the state key (no operation branches on it) but compared across back ends on every transition");
    if rep.quick() {
        let dl = std::env::var("C09_DATA").ok().and_then(|x| x.parse().ok()).unwrap_or(2);
        explore(rep, 3, 4, 40, 400_000, dl, 1);
    } else {
        explore(rep, 4, 5, 40, 900_000, 2, 2); // ~13 KB per held state (two graphs, model, history): 900 000 states stay below the resident-set cap
    }
}

pub fn replay(w: &Value) -> Option<Violation> {
    // histories are replayed by re-running the search restricted to the recorded operation names
    let ops: Vec<String> = w["ops"].as_array()?.iter().map(|x| x.as_str().unwrap().to_string()).collect();
    let mut s = State { v: VecG::new(), h: HashG::new(), m: RefGraph::default(), lv: BTreeMap::new(), lh: BTreeMap::new(), next_l: 0 };
    for (i, want) in ops.iter().enumerate() {
        let mut cands = structural_ops(&s, 8, 12);
        cands.extend(data_ops(&s));
        let Some(op) = cands.into_iter().find(|o| format!("{:?}", o) == *want) else {
            println!("operation {} is not enabled at step {}", want, i);
            return None;
        };
        println!("step {}: {}", i, want);
        match step(&s, &op) {
            Outcome::Next(n) => s = *n,
            Outcome::BothRefused => {
                println!("  refused by both back ends");
                return None;
            }
            Outcome::RefusedUnchanged(n) => {
                println!("  refused with Err by both back ends, observable graph unchanged");
                s = *n;
            }
            Outcome::Violation(sig, detail) => return Some(Violation { sig, detail, witness: w.clone() }),
        }
    }
    clone_and_derived(&s).map(|(sig, detail)| Violation { sig, detail, witness: w.clone() })
}
