//! C06 — the simulator CLI reports true Born-rule probabilities, expectations and samples.
//!
//! E1: every circuit of the families x every bit string / Pauli string (and the broadcast forms) x methods x parallel flag.
//! E3: the sampler's Bernoulli draws are environment answers (sampler hook): DFS over the whole outcome tree; at every
//!     node the probability handed to the draw must be the conditional Born probability given the recorded prefix.

use crate::conv::*;
use crate::gen::*;
use crate::report::*;
use crate::sweep_range;
use clap::Parser;
use num::complex::Complex64;
use quizx::circuit::Circuit;
use quizx::gate::*;
use qzv_ref::ring::*;
use serde_json::{json, Value};
use std::cell::RefCell;
use std::time::Instant;

const CONFIGS: [(&str, bool); 4] = [("--cats", false), ("--bss", false), ("--cats", true), ("--bss", true)];

/// a scratch directory of its own for every call: NOT one per worker thread — `-p` runs a nested parallel section, and
/// a pool thread waiting in it picks up another case of the sweep, which would overwrite the suspended case's circuit file
/// (seen as non-reproducible wrong answers on 7-qubit circuits, see DESIGN section 8)
struct ScratchDir(String);
impl Drop for ScratchDir {
    fn drop(&mut self) {
        let _ = std::fs::remove_dir_all(&self.0);
    }
}
impl std::fmt::Display for ScratchDir {
    fn fmt(&self, f: &mut std::fmt::Formatter<'_>) -> std::fmt::Result {
        f.write_str(&self.0)
    }
}
fn scratch() -> ScratchDir {
    static NEXT: std::sync::atomic::AtomicU64 = std::sync::atomic::AtomicU64::new(0);
    let d = format!("/verif/target/scratch/c06-{}-{}", std::process::id(), NEXT.fetch_add(1, std::sync::atomic::Ordering::Relaxed));
    let _ = std::fs::create_dir_all(&d);
    ScratchDir(d)
}

/// state C|0..0> as complex floats (exact when possible)
fn state_of(c: &Circuit) -> Option<Vec<Complex64>> {
    let rc = to_rcircuit(c, &[])?;
    if let Some(v) = qzv_ref::circuit::state::<Zw>(&rc) {
        return Some(v.iter().map(|x| x.to_c64()).collect());
    }
    qzv_ref::circuit::state::<Cf>(&rc).map(|v| v.iter().map(|x| x.0).collect())
}

fn run_cli(args: &[String]) -> Result<Result<String, String>, String> {
    // Ok(Ok(output)) | Ok(Err(cli error)) | Err(panic)
    let out = args.iter().position(|a| a == "-o").map(|i| args[i + 1].clone());
    if let Some(o) = &out {
        let _ = std::fs::remove_file(o);
    }
    guarded(|| match quizx::cli::Cli::try_parse_from(args.iter().map(|s| s.as_str())) {
        Err(e) => Err(format!("argument error: {}", e.kind())),
        Ok(cli) => match cli.run() {
            Err(e) => Err(format!("{}", e)),
            Ok(()) => Ok(out.map(|o| std::fs::read_to_string(o).unwrap_or_default()).unwrap_or_default()),
        },
    })
}

fn base_args(file: &str, out: &str, method: &str, par: bool) -> Vec<String> {
    let mut a: Vec<String> = vec!["quizx".into(), "sim".into(), file.into(), "-o".into(), out.into(), method.into()];
    if par {
        a.push("-p".into());
        a.push("2".into());
    }
    a
}

fn pauli_expect(psi: &[Complex64], q: usize, ps: &[char]) -> f64 {
    // <psi| P |psi>, character i acts on qubit i (most significant first)
    let mut acc = Complex64::new(0.0, 0.0);
    for (idx, amp) in psi.iter().enumerate() {
        let mut j = idx;
        let mut coef = Complex64::new(1.0, 0.0);
        for (i, p) in ps.iter().enumerate() {
            let bit = (idx >> (q - 1 - i)) & 1;
            match p {
                'I' => {}
                'X' => j ^= 1 << (q - 1 - i),
                'Z' => {
                    if bit == 1 {
                        coef = -coef
                    }
                }
                _ => {
                    // Y|0> = i|1>, Y|1> = -i|0>
                    j ^= 1 << (q - 1 - i);
                    coef *= if bit == 0 { Complex64::new(0.0, 1.0) } else { Complex64::new(0.0, -1.0) };
                }
            }
        }
        acc += psi[j].conj() * coef * amp;
    }
    acc.re
}

fn kinds(c: &Circuit) -> &'static str {
    if c.gates.iter().any(|g| g.t == SWAP) {
        "with-swap"
    } else if c.gates.iter().any(|g| g.t == CCZ || g.t == TOFF) {
        "with-ccz"
    } else {
        "plain"
    }
}

pub fn judge_queries(st: &mut Stats, c: &Circuit, only: Option<&Value>) {
    st.inc("cases");
    let q = c.num_qubits();
    let Some(psi) = state_of(c) else { return };
    let dir = scratch();
    let file = format!("{}/c.qasm", dir);
    let out = format!("{}/out.txt", dir);
    std::fs::write(&file, c.to_qasm()).unwrap();
    let idle: Vec<usize> = (0..q).filter(|i| !c.gates.iter().any(|g| g.qs.contains(i))).collect();
    for (method, par) in CONFIGS {
        // amplitudes
        let mut bit_queries: Vec<String> = (0..(1usize << q)).map(|b| (0..q).map(|i| if (b >> (q - 1 - i)) & 1 == 1 { '1' } else { '0' }).collect()).collect();
        if q > 4 {
            // wide circuits: a fixed selection instead of all 2^q strings (all-zero, all-one, alternating, one-hot ends)
            let pick = |f: &dyn Fn(usize) -> bool| -> String { (0..q).map(|i| if f(i) { '1' } else { '0' }).collect() };
            bit_queries = vec![pick(&|_| false), pick(&|_| true), pick(&|i| i % 2 == 0), pick(&|i| i == 0), pick(&|i| i == q - 1), pick(&|i| i % 3 == 1)];
        }
        if q > 1 {
            bit_queries.push("0".into());
            bit_queries.push("1".into());
        }
        for bs in &bit_queries {
            let cfg = json!({"task": "-a", "query": bs, "method": method, "parallel": par});
            if let Some(o) = only {
                if *o != cfg {
                    continue;
                }
            }
            st.inc("evaluations");
            let full: Vec<char> = if bs.len() == q { bs.chars().collect() } else { vec![bs.chars().next().unwrap(); q] };
            let idx = full.iter().enumerate().fold(0usize, |a, (i, ch)| a | (((*ch == '1') as usize) << (q - 1 - i)));
            let want = psi[idx].norm_sqr();
            let mut args = base_args(&file, &out, method, par);
            args.push("-a".into());
            args.push(bs.clone());
            let wit = || json!({"kind": "query", "circuit": circuit_json(c), "qasm": c.to_qasm(), "config": cfg});
            match run_cli(&args) {
                Err(p) => st.violation(Violation { sig: format!("amplitude|panic|{}|{}", kinds(c), p.rsplit(" @ ").next().unwrap_or("")), detail: p, witness: wit() }),
                Ok(Err(e)) => st.violation(Violation { sig: format!("amplitude|error|{}", kinds(c)), detail: e, witness: wit() }),
                Ok(Ok(txt)) => match txt.trim().parse::<f64>() {
                    Ok(got) if (got - want).abs() <= 1e-9 => st.inc("nontrivial"),
                    r => st.violation(Violation { sig: format!("amplitude|wrong|{}|{}", kinds(c), if bs.len() == q { "full" } else { "broadcast" }), detail: format!("-a {} printed {:?} ({:?}), |<b|C|0>|^2 = {}", bs, txt.trim(), r, want), witness: wit() }),
                },
            }
        }
        // expectation values
        let letters = ['I', 'X', 'Y', 'Z'];
        let mut pq: Vec<String> = if q > 4 {
            let pick = |f: &dyn Fn(usize) -> char| -> String { (0..q).map(f).collect() };
            vec![pick(&|i| if i == 0 { 'Z' } else { 'I' }), pick(&|i| if i == q - 1 { 'X' } else { 'I' }), pick(&|i| ['X', 'Y', 'Z', 'I'][i % 4]), pick(&|i| if i % 2 == 0 { 'Y' } else { 'Z' })]
        } else {
            (0..4usize.pow(q as u32)).map(|mut k| (0..q).map(|_| { let ch = letters[k % 4]; k /= 4; ch }).collect()).collect()
        };
        if q > 1 {
            for l in letters {
                pq.push(l.to_string());
            }
            pq.push("z".into());
        }
        for ps in &pq {
            let cfg = json!({"task": "-e", "query": ps, "method": method, "parallel": par});
            if let Some(o) = only {
                if *o != cfg {
                    continue;
                }
            }
            st.inc("evaluations");
            let up: Vec<char> = ps.to_uppercase().chars().collect();
            let full: Vec<char> = if up.len() == q { up } else { vec![up[0]; q] };
            let want = pauli_expect(&psi, q, &full);
            let mut args = base_args(&file, &out, method, par);
            args.push("-e".into());
            args.push(ps.clone());
            let wit = || json!({"kind": "query", "circuit": circuit_json(c), "qasm": c.to_qasm(), "config": cfg});
            let on_idle = full.iter().enumerate().any(|(i, ch)| *ch != 'I' && idle.contains(&i));
            match run_cli(&args) {
                Err(p) => st.violation(Violation { sig: format!("expval|panic|{}|{}", kinds(c), p.rsplit(" @ ").next().unwrap_or("")), detail: p, witness: wit() }),
                Ok(Err(e)) => st.violation(Violation { sig: format!("expval|error|{}", kinds(c)), detail: e, witness: wit() }),
                Ok(Ok(txt)) => match txt.trim().parse::<f64>() {
                    Ok(got) if (got - want).abs() <= 1e-9 => st.inc("nontrivial"),
                    r => st.violation(Violation { sig: format!("expval|wrong|{}|pauli-on-idle-qubit={}", kinds(c), on_idle), detail: format!("-e {} printed {:?} ({:?}), <psi|P|psi> = {}", ps, txt.trim(), r, want), witness: wit() }),
                },
            }
        }
    }
}

// ---------------------------------------------------------------------------------------------
// sampling: the outcome tree
// ---------------------------------------------------------------------------------------------

#[derive(Default, Clone)]
struct SampTrace {
    script: Vec<bool>,
    pos: usize,
    /// (shot index, prefix, p handed to the draw, free choice?)
    draws: Vec<(usize, Vec<bool>, f64, bool)>,
    shot: usize,
}
thread_local! { static SAMP: RefCell<SampTrace> = RefCell::new(SampTrace::default()); }

fn install_sampler_handler() {
    quizx::verif_hooks::choice::install_sampler(Some(Box::new(|prefix: &[bool], p: f64| {
        SAMP.with(|s| {
            let mut s = s.borrow_mut();
            if prefix.is_empty() && !s.draws.is_empty() {
                s.shot += 1;
            }
            // parity with random_bool: 0 and 1 are forced, anything outside [0,1] (or NaN) would panic there
            // a probability within float noise of 0 or 1 (the conditional is a quotient of two float marginals, e.g.
            // 0.9999999999999998) is forced as well: random_bool would take the other branch once in 1e16 draws
            let free = p > 1e-9 && p < 1.0 - 1e-9;
            let b = if !(0.0..=1.0).contains(&p) {
                false
            } else if p <= 1e-9 {
                false
            } else if p >= 1.0 - 1e-9 {
                true
            } else {
                let b = s.script.get(s.pos).copied().unwrap_or(false);
                s.pos += 1;
                b
            };
            let shot = s.shot;
            s.draws.push((shot, prefix.to_vec(), p, free));
            b
        })
    })));
}

fn marginal(psi: &[Complex64], q: usize, prefix: &[bool]) -> f64 {
    let k = prefix.len();
    psi.iter().enumerate().filter(|(idx, _)| (0..k).all(|i| ((idx >> (q - 1 - i)) & 1 == 1) == prefix[i])).map(|(_, a)| a.norm_sqr()).sum()
}

pub fn judge_sampling(st: &mut Stats, c: &Circuit, shots: usize) {
    st.inc("cases");
    let q = c.num_qubits();
    let Some(psi) = state_of(c) else { return };
    let dir = scratch();
    let file = format!("{}/c.qasm", dir);
    let out = format!("{}/out.txt", dir);
    std::fs::write(&file, c.to_qasm()).unwrap();
    install_sampler_handler();
    for (method, par) in CONFIGS {
        // DFS over all answer scripts
        let mut stack: Vec<Vec<bool>> = vec![vec![]];
        let mut leaves = 0u64;
        while let Some(script) = stack.pop() {
            st.inc("evaluations");
            st.inc("transitions");
            SAMP.with(|s| *s.borrow_mut() = SampTrace { script: script.clone(), ..Default::default() });
            let mut args = base_args(&file, &out, method, par);
            args.push("-s".into());
            args.push(shots.to_string());
            let r = run_cli(&args);
            let tr = SAMP.with(|s| s.borrow().clone());
            let wit = || json!({"kind": "sample", "circuit": circuit_json(c), "qasm": c.to_qasm(), "method": method, "parallel": par, "shots": shots, "script": script});
            // every draw: probability = conditional Born probability of "next bit = 1" given the prefix
            let mut bad = false;
            for (shot, prefix, p, _) in &tr.draws {
                let pm = marginal(&psi, q, prefix);
                let mut p1 = prefix.clone();
                p1.push(true);
                let want = if pm > 1e-12 { marginal(&psi, q, &p1) / pm } else { f64::NAN };
                if p.is_nan() || !(0.0..=1.0).contains(p) {
                    st.violation(Violation { sig: "sample|probability-out-of-range".into(), detail: format!("shot {} prefix {:?}: probability {} handed to the draw (random_bool would panic)", shot, prefix, p), witness: wit() });
                    bad = true;
                    break;
                }
                if want.is_nan() {
                    st.violation(Violation { sig: "sample|impossible-prefix".into(), detail: format!("shot {}: the sampler reached prefix {:?}, which has Born probability 0", shot, prefix), witness: wit() });
                    bad = true;
                    break;
                }
                if (p - want).abs() > 1e-9 {
                    st.violation(Violation { sig: format!("sample|not-the-conditional-probability|{}", if prefix.is_empty() { "first-bit" } else { "later-bit" }), detail: format!("shot {} prefix {:?}: bit drawn with probability {}, the conditional Born probability is {} (joint {})", shot, prefix, p, want, want * pm), witness: wit() });
                    bad = true;
                    break;
                }
            }
            match r {
                Err(p) => {
                    st.violation(Violation { sig: format!("sample|panic|{}", p.rsplit(" @ ").next().unwrap_or("")), detail: p, witness: wit() });
                    continue;
                }
                Ok(Err(e)) => {
                    st.violation(Violation { sig: "sample|error".into(), detail: e, witness: wit() });
                    continue;
                }
                Ok(Ok(txt)) => {
                    let lines: Vec<&str> = txt.lines().collect();
                    if lines.len() != shots || lines.iter().any(|l| l.len() != q || l.chars().any(|ch| ch != '0' && ch != '1')) {
                        st.violation(Violation { sig: "sample|malformed-output".into(), detail: format!("{:?}", txt), witness: wit() });
                        continue;
                    }
                    for l in &lines {
                        let bits: Vec<bool> = l.chars().map(|ch| ch == '1').collect();
                        if marginal(&psi, q, &bits) <= 1e-12 && !bad {
                            st.violation(Violation { sig: "sample|zero-probability-sample".into(), detail: format!("printed sample {} has Born probability 0", l), witness: wit() });
                            bad = true;
                        }
                    }
                    if !bad {
                        st.inc("nontrivial");
                        leaves += 1;
                    }
                }
            }
            // branch on every later free draw
            let free_positions: Vec<usize> = tr.draws.iter().enumerate().filter(|(_, d)| d.3).map(|(i, _)| i).collect();
            let answered: Vec<bool> = {
                // reconstruct the answers given at the free draws, in order
                let mut v = script.clone();
                while v.len() < free_positions.len() {
                    v.push(false);
                }
                v
            };
            for i in (script.len()..free_positions.len()).rev() {
                let mut s2: Vec<bool> = answered[..i].to_vec();
                s2.push(true);
                stack.push(s2);
            }
        }
        st.add("sampling_leaves", leaves);
    }
    quizx::verif_hooks::choice::install_sampler(None);
}

pub fn judge_malformed(st: &mut Stats) {
    let dir = scratch();
    let file = format!("{}/ok.qasm", dir);
    let out = format!("{}/out.txt", dir);
    let mut c = Circuit::new(2);
    c.push(g1(HAD, 0));
    c.push(Gate::new(CNOT, vec![0, 1]));
    std::fs::write(&file, c.to_qasm()).unwrap();
    let bad: Vec<(&str, Vec<&str>)> = vec![
        ("bad bit", vec!["-a", "0x"]),
        ("bad pauli", vec!["-e", "ZQ"]),
        ("bit string too long", vec!["-a", "010"]),
        ("bit string empty", vec!["-a", ""]),
        ("pauli string too long", vec!["-e", "XYZ"]),
        ("pauli string empty", vec!["-e", ""]),
        ("two tasks", vec!["-a", "00", "-e", "ZZ"]),
        ("shots and amplitude", vec!["-s", "2", "-a", "00"]),
        ("two methods", vec!["--cats", "--bss"]),
        ("negative shots", vec!["-s", "-1"]),
        ("shots not a number", vec!["-s", "many"]),
        ("parallel not a number", vec!["-p", "x"]),
        ("unknown flag", vec!["--frobnicate"]),
    ];
    for (name, extra) in bad {
        st.inc("cases");
        st.inc("evaluations");
        let mut args: Vec<String> = vec!["quizx".into(), "sim".into(), file.clone(), "-o".into(), out.clone()];
        args.extend(extra.iter().map(|s| s.to_string()));
        let wit = || json!({"kind": "malformed", "name": name, "args": extra});
        match run_cli(&args) {
            Err(p) => st.violation(Violation { sig: format!("malformed|panic|{}", name), detail: p, witness: wit() }),
            Ok(Ok(txt)) => st.violation(Violation { sig: format!("malformed|accepted|{}", name), detail: format!("printed {:?}", txt), witness: wit() }),
            Ok(Err(_)) => st.inc("nontrivial"),
        }
    }
    // missing / unparsable input file
    for (name, path, content) in [("missing file", format!("{}/nope.qasm", dir), None), ("garbage file", format!("{}/bad.qasm", dir), Some("this is not qasm")), ("conditional in file", format!("{}/cond.qasm", dir), Some("OPENQASM 2.0;\nqreg q[1];\ncreg c[1];\nif(c==1) x q[0];\n"))] {
        st.inc("cases");
        st.inc("evaluations");
        if let Some(t) = content {
            std::fs::write(&path, t).unwrap();
        }
        let args: Vec<String> = vec!["quizx".into(), "sim".into(), path.clone(), "-o".into(), out.clone(), "-a".into(), "0".into()];
        let wit = || json!({"kind": "malformed", "name": name});
        match run_cli(&args) {
            Err(p) => st.violation(Violation { sig: format!("malformed|panic|{}", name), detail: p, witness: wit() }),
            Ok(Ok(txt)) => st.violation(Violation { sig: format!("malformed|accepted|{}", name), detail: format!("printed {:?}", txt), witness: wit() }),
            Ok(Err(_)) => st.inc("nontrivial"),
        }
    }
}

fn families(quick: bool) -> Vec<(&'static str, usize, Vec<Gate>, usize)> {
    let mut a2 = alpha_ct(2);
    a2.push(Gate::new(SWAP, vec![0, 1]));
    let mut a3: Vec<Gate> = vec![];
    for i in 0..3 {
        a3.push(g1(HAD, i));
        a3.push(g1(T, i));
        a3.push(g1(NOT, i));
        a3.push(g1(S, i));
    }
    a3.extend([Gate::new(CNOT, vec![0, 1]), Gate::new(CNOT, vec![2, 0]), Gate::new(CZ, vec![1, 2]), Gate::new(SWAP, vec![0, 2]), Gate::new(SWAP, vec![0, 1]), Gate::new(CCZ, vec![0, 1, 2]), Gate::new(TOFF, vec![2, 1, 0])]);
    if quick {
        vec![("K(2,2,A_ct+swap)", 2, a2, 2), ("K(3,2,A3)", 3, a3, 2), ("K(2,2,A_tol)", 2, alpha_tol(2), 2)]
    } else {
        vec![("K(2,3,A_ct+swap)", 2, a2, 3), ("K(3,3,A3)", 3, a3, 3), ("K(2,3,A_tol)", 2, alpha_tol(2), 3)]
    }
}

pub fn run(rep: &mut Report) {
    rep.rule = "case = (circuit, query, method, parallel flag) for amplitude / expectation queries, compared at 1e-9 with the reference state-vector simulation; for sampling, every Bernoulli draw is an environment answer: the whole outcome tree is enumerated and at every node the probability handed to the draw is compared with the conditional Born probability given the recorded prefix; non-trivial = query answered correctly / a complete outcome path whose draws were all right".into();
    rep.assume("the CLI runs in-process through quizx::cli::Cli::try_parse_from(...).run() with -o (the binary's main only maps Err to exit status 1); the sampler hook bypasses random_bool, so the hook handler itself reports a probability outside [0,1] or NaN as the panic random_bool would raise");
    let quick = rep.quick();
    for (name, q, alpha, d) in families(quick) {
        let t0 = Instant::now();
        let n = circuit_count(alpha.len(), d);
        let stats = sweep_range(n, |st, idx| {
            watch_begin(idx, 0);
            let c = circuit_at(q, &alpha, d, idx);
            judge_queries(st, &c, None);
            st.sample(1, || json!({"qasm": c.to_qasm()}));
            watch_end();
        });
        rep.absorb(&format!("queries {}", name), &format!("every circuit with <= {} gates over {} gate instances on {} qubits (idle qubits included): all 2^q bit strings + broadcast 0/1, all 4^q Pauli strings + broadcast I/X/Y/Z/z, methods --cats/--bss, with and without -p 2", d, alpha.len(), q), true, None, t0, stats);
    }
    // cat-state circuits: H^n ; T on the legs ; CZ from a hub qubit to every leg (a cat state for the decomposer), every
    // set of extra CZ gates among the first legs (legs already adjacent) and to one surrounding qubit ; H^n. Wide circuits:
    // a fixed selection of queries, both methods, with and without -p
    {
        let t0 = Instant::now();
        let mut fam: Vec<Circuit> = vec![];
        for legs in if quick { vec![5usize] } else { vec![4, 5, 6] } {
            let n = legs + 2; // hub 0, legs 1..=legs, one surrounding qubit
            let extra: Vec<(usize, usize)> = vec![(1, 2), (2, 3), (3, 4), (n - 1, 1), (n - 1, legs), (1, 3)];
            for mask in 0..(1u32 << (extra.len() + 1)) {
                let mut c = Circuit::new(n);
                for i in 0..n {
                    c.push(g1(HAD, i));
                }
                for i in 1..=legs {
                    c.push(g1(T, i));
                }
                // the surrounding qubit with or without a T of its own
                if (mask >> extra.len()) & 1 == 1 {
                    c.push(g1(T, n - 1));
                }
                for i in 1..=legs {
                    c.push(Gate::new(CZ, vec![0, i]));
                }
                for (k, &(a, b)) in extra.iter().enumerate() {
                    if (mask >> k) & 1 == 1 && a != b && a < n && b < n {
                        c.push(Gate::new(CZ, vec![a.min(b), a.max(b)]));
                    }
                }
                for i in 0..n {
                    c.push(g1(HAD, i));
                }
                fam.push(c);
            }
        }
        let stats = crate::sweep(&fam, |st, i, c| {
            watch_begin(i as u64, 2);
            judge_queries(st, c, None);
            watch_end();
        });
        rep.absorb("queries on cat-state circuits", &format!("{} circuits on 6..8 qubits: a hub qubit CZ-connected to 4..6 T-carrying legs between two Hadamard layers, x every subset of six extra CZ gates (adjacent legs, a surrounding qubit): 8 amplitude and 9 expectation queries each, methods --cats/--bss, with and without -p 2", fam.len()), true, None, t0, stats);
    }
    for (name, q, alpha, d) in families(quick) {
        let t0 = Instant::now();
        let n = circuit_count(alpha.len(), d);
        // dedicated threads: the scripted sampler's trace is per-thread state and `-p` runs nested parallel sections
        let stats = crate::sweep_range_dedicated(n, |st, idx| {
            let c = circuit_at(q, &alpha, d, idx);
            judge_sampling(st, &c, 1);
            // two consecutive shots share one decomposer: on a stride of the family
            if idx % 7 == 0 {
                judge_sampling(st, &c, 2);
            }
        });
        rep.absorb(&format!("sampling {}", name), "the full outcome tree of `quizx sim -s 1` (and -s 2 on every 7th circuit) for every method / parallel configuration: each draw's probability vs the conditional Born probability, every printed sample has non-zero probability", true, None, t0, stats);
    }
    let t0 = Instant::now();
    let mut st = Stats::default();
    judge_malformed(&mut st);
    rep.absorb("malformed queries", "bad bit / Pauli characters, wrong lengths, empty strings, two tasks, two methods, bad numbers, unknown flags, missing / unparsable / conditional input files: an error, never a panic or an answer", true, None, t0, st);
    if let Ok(rd) = std::fs::read_dir("/verif/target/scratch") {
        let pre = format!("c06-{}-", std::process::id());
        for e in rd.flatten() {
            if e.file_name().to_string_lossy().starts_with(&pre) {
                let _ = std::fs::remove_dir_all(e.path());
            }
        }
    }
}

pub fn replay(w: &Value) -> Option<Violation> {
    let mut st = Stats::default();
    match w["kind"].as_str()? {
        "query" => judge_queries(&mut st, &circuit_from_json(&w["circuit"])?, Some(&w["config"])),
        "sample" => judge_sampling(&mut st, &circuit_from_json(&w["circuit"])?, w["shots"].as_u64()? as usize),
        _ => {
            judge_malformed(&mut st);
            let name = w["name"].as_str().unwrap_or("").to_string();
            st.viols.retain(|k, _| k.ends_with(&name));
        }
    }
    st.viols.into_values().next().map(|(_, v)| v)
}
