//! C14 — QASM printing and parsing round-trip circuits; unsupported constructs are errors, not panics or silent drops.

use crate::gen::*;
use crate::report::*;
use crate::{sweep, sweep_range};
use num::Rational64;
use quizx::circuit::Circuit;
use quizx::gate::*;
use serde_json::{json, Value};
use std::time::Instant;

fn roundtrip(st: &mut Stats, c: &Circuit, cls: &str) {
    st.inc("cases");
    st.inc("evaluations");
    let wit = || json!({"kind": "roundtrip", "circuit": circuit_json(c)});
    let txt = match guarded(|| c.to_qasm()) {
        Err(p) => {
            st.violation(Violation { sig: format!("to_qasm|panic|{}", last_panic_site()), detail: p, witness: wit() });
            return;
        }
        Ok(t) => t,
    };
    match guarded(|| Circuit::from_qasm(&txt)) {
        Err(p) => st.violation(Violation { sig: format!("roundtrip|{}|parse-panic|{}", cls, last_panic_site()), detail: format!("{}\n{}", p, txt), witness: wit() }),
        Ok(Err(e)) => st.violation(Violation { sig: format!("roundtrip|{}|parse-error", cls), detail: format!("{}\n{}", e, txt), witness: wit() }),
        Ok(Ok(c2)) => {
            if c2.num_qubits() != c.num_qubits() {
                st.violation(Violation { sig: format!("roundtrip|{}|qubit-count", cls), detail: format!("printed {} qubits, parsed back {}:\n{}", c.num_qubits(), c2.num_qubits(), txt), witness: wit() });
            } else if c2 != *c {
                let k = c.gates.iter().zip(c2.gates.iter()).position(|(a, b)| a != b);
                let what = match k {
                    Some(k) => format!("gate {}: printed {:?} parsed {:?}", k, c.gates[k], c2.gates[k]),
                    None => format!("gate count {} vs {}", c.num_gates(), c2.num_gates()),
                };
                let kind = k.map(|k| c.gates[k].t.qasm_name()).unwrap_or("count");
                st.violation(Violation { sig: format!("roundtrip|{}|differs|{}", cls, kind), detail: format!("{}\n{}", what, txt), witness: wit() });
            } else {
                st.inc("nontrivial");
            }
        }
    }
    // the same gate list assembled from both ends (push_back, then push_front: the gate deque is wrapped in its ring
    // buffer) prints the same text
    let gs: Vec<Gate> = c.gates.iter().cloned().collect();
    for k in [1usize, gs.len() / 2] {
        if k == 0 || k > gs.len() {
            continue;
        }
        let r = guarded(|| {
            let mut w = Circuit::new(c.num_qubits());
            for g in &gs[k..] {
                w.push_back(g.clone());
            }
            for g in gs[..k].iter().rev() {
                w.push_front(g.clone());
            }
            w.to_qasm()
        });
        match r {
            Err(p) => st.violation(Violation { sig: format!("to_qasm|panic|assembled-from-both-ends|{}", last_panic_site()), detail: p, witness: wit() }),
            Ok(t) if t != txt => {
                st.violation(Violation { sig: format!("to_qasm|{}|assembled-from-both-ends-prints-differently", cls), detail: format!("first {} gates pushed to the front afterwards:\n{}\ninstead of\n{}", k, t, txt), witness: wit() });
                break;
            }
            Ok(_) => {}
        }
    }
}

/// gate kinds of the property's list with their arities
fn kinds() -> Vec<(GType, usize, bool)> {
    vec![
        (ZPhase, 1, true), (XPhase, 1, true), (NOT, 1, false), (Z, 1, false), (S, 1, false), (T, 1, false), (Sdg, 1, false), (Tdg, 1, false), (HAD, 1, false),
        (CNOT, 2, false), (CZ, 2, false), (SWAP, 2, false), (XCX, 2, false), (TOFF, 3, false), (CCZ, 3, false), (InitAncilla, 1, false), (PostSelect, 1, false),
    ]
}

fn tuples(q: usize, ar: usize) -> Vec<Vec<usize>> {
    let mut out = vec![vec![]];
    for _ in 0..ar {
        let mut n = vec![];
        for t in &out {
            for x in 0..q {
                if !t.contains(&x) {
                    let mut t2: Vec<usize> = t.clone();
                    t2.push(x);
                    n.push(t2);
                }
            }
        }
        out = n;
    }
    out
}

#[derive(Clone, Debug)]
struct TextCase {
    name: String,
    text: String,
    /// Some(gates as (name, qubits, phase num, den)) with qubit count, or None when an error is required
    expect: Option<(usize, Vec<(String, Vec<usize>, i64, i64)>)>,
    /// for decimal spellings: compare phases at this tolerance instead of exactly
    tol: f64,
}

fn hdr() -> String {
    "OPENQASM 2.0;\ninclude \"qelib1.inc\";\n".to_string()
}

fn text_cases() -> Vec<TextCase> {
    let mut out = vec![];
    // register splits: every composition of n <= 4 qubits into <= 3 registers
    let names = ["a", "b", "c"];
    for n in 1..=4usize {
        let mut comps: Vec<Vec<usize>> = vec![];
        fn rec(rem: usize, parts: usize, cur: &mut Vec<usize>, out: &mut Vec<Vec<usize>>) {
            if rem == 0 {
                if !cur.is_empty() {
                    out.push(cur.clone());
                }
                return;
            }
            if cur.len() == parts {
                return;
            }
            for k in 1..=rem {
                cur.push(k);
                rec(rem - k, parts, cur, out);
                cur.pop();
            }
        }
        rec(n, 3, &mut vec![], &mut comps);
        for comp in comps {
            let mut t = hdr();
            for (i, sz) in comp.iter().enumerate() {
                t += &format!("qreg {}[{}];\n", names[i], sz);
            }
            let mut exp = vec![];
            let mut flat = vec![];
            for (i, sz) in comp.iter().enumerate() {
                for k in 0..*sz {
                    flat.push(format!("{}[{}]", names[i], k));
                }
            }
            for (qi, f) in flat.iter().enumerate() {
                t += &format!("x {};\n", f);
                exp.push(("x".to_string(), vec![qi], 0, 1));
            }
            if n >= 2 {
                t += &format!("cx {}, {};\n", flat[n - 1], flat[0]);
                exp.push(("cx".to_string(), vec![n - 1, 0], 0, 1));
                t += &format!("cz {}, {};\n", flat[0], flat[n - 1]);
                exp.push(("cz".to_string(), vec![0, n - 1], 0, 1));
            }
            // whole-register broadcast on the last register
            let last = comp.len() - 1;
            t += &format!("h {};\n", names[last]);
            let base: usize = comp[..last].iter().sum();
            for k in 0..comp[last] {
                exp.push(("h".to_string(), vec![base + k], 0, 1));
            }
            out.push(TextCase { name: format!("registers {:?}", comp), text: t, expect: Some((n, exp)), tol: 0.0 });
        }
    }
    // phase spellings
    let q1 = |body: &str| format!("{}qreg q[1];\n{}\n", hdr(), body);
    let sp: Vec<(&str, i64, i64, f64)> = vec![
        ("rz(pi/4) q[0];", 1, 4, 0.0), ("rz(3*pi/4) q[0];", 3, 4, 0.0), ("rz(-pi/2) q[0];", -1, 2, 0.0), ("rz(0.25*pi) q[0];", 1, 4, 0.0), ("rz(pi*0.5) q[0];", 1, 2, 0.0),
        ("rz(2*pi) q[0];", 0, 1, 0.0), ("rz(pi) q[0];", 1, 1, 0.0), ("rz(-pi) q[0];", 1, 1, 0.0), ("rz(0) q[0];", 0, 1, 0.0), ("rz(7*pi/4) q[0];", -1, 4, 0.0),
        ("rz(pi/3) q[0];", 1, 3, 0.0), ("rz(5*pi/16) q[0];", 5, 16, 0.0), ("rx(pi/8) q[0];", 1, 8, 0.0), ("rz(0.125*pi) q[0];", 1, 8, 0.0), ("rz(-0.75*pi) q[0];", -3, 4, 0.0),
        ("rz(3*pi/2) q[0];", -1, 2, 0.0), ("rz(pi/2 + pi/4) q[0];", 3, 4, 0.0), ("rz(0.785398163) q[0];", 1, 4, 1e-6), ("rz(1.570796327) q[0];", 1, 2, 1e-6), ("rz(3.141592654) q[0];", 1, 1, 1e-6),
        ("rz(0.392699082) q[0];", 1, 8, 1e-6), ("rz(-0.785398163) q[0];", -1, 4, 1e-6), ("rz(1.0) q[0];", 31831, 100000, 1e-3),
    ];
    for (body, n, d, tol) in sp {
        let name = if body.starts_with("rx") { "rx" } else { "rz" };
        out.push(TextCase { name: format!("phase {}", body), text: q1(body), expect: Some((1, vec![(name.to_string(), vec![0], n, d)])), tol });
    }
    // decimal radians for every reduced k/d, d <= 16, |k| <= 2d, printed with 12 decimals: the parsed phase
    // must be that angle to 1e-6 (a decimal is an approximation: exact recovery of k/d is not demanded)
    for d in 1..=16i64 {
        for k in (-2 * d)..=(2 * d) {
            if num::integer::gcd(k.abs(), d) != 1 {
                continue;
            }
            let rad = std::f64::consts::PI * (k as f64) / (d as f64);
            let body = format!("rz({:.12}) q[0];", rad);
            out.push(TextCase { name: format!("decimal {}", body), text: q1(&body), expect: Some((1, vec![("rz".to_string(), vec![0], k, d)])), tol: 1e-6 });
        }
    }
    // mixed arguments: a bare-decimal term plus or minus a symbolic pi term (seed c14-i: the two parts are converted
    // separately and added) — every reduced k1/d1 written in decimal radians x every k2*pi/d2, in the three spellings
    // dec + sym, sym + dec, sym - dec; the parsed phase must be the sum to 1e-6
    for d1 in [1i64, 2, 3, 4, 5, 8, 16] {
        for k1 in 1..(2 * d1) {
            if num::integer::gcd(k1, d1) != 1 {
                continue;
            }
            let rad = std::f64::consts::PI * (k1 as f64) / (d1 as f64);
            for d2 in [1i64, 2, 3, 4, 7, 8] {
                for k2 in 1..(2 * d2) {
                    if num::integer::gcd(k2, d2) != 1 {
                        continue;
                    }
                    let sym = if d2 == 1 { format!("{}*pi", k2) } else { format!("{}*pi/{}", k2, d2) };
                    for (body, n, d) in [
                        (format!("rz({:.12} + {}) q[0];", rad, sym), k1 * d2 + k2 * d1, d1 * d2),
                        (format!("rz({} + {:.12}) q[0];", sym, rad), k1 * d2 + k2 * d1, d1 * d2),
                        (format!("rz({} - {:.12}) q[0];", sym, rad), k2 * d1 - k1 * d2, d1 * d2),
                    ] {
                        out.push(TextCase { name: format!("mixed {}", body), text: q1(&body), expect: Some((1, vec![("rz".to_string(), vec![0], n, d)])), tol: 1e-6 });
                    }
                }
            }
        }
    }
    // register declarations without any statement, or with a gate definition only: the qubit count is the sum of all registers
    for comp in [vec![2usize, 3], vec![1, 1], vec![3, 1, 2], vec![1, 4], vec![2, 2, 2]] {
        let n: usize = comp.iter().sum();
        let mut t = hdr();
        for (i, sz) in comp.iter().enumerate() {
            t += &format!("qreg {}[{}];\n", names[i], sz);
        }
        out.push(TextCase { name: format!("no statements, registers {:?}", comp), text: t.clone(), expect: Some((n, vec![])), tol: 0.0 });
        out.push(TextCase { name: format!("no statements, registers {:?} and a creg", comp), text: format!("{}creg m[2];\n", t), expect: Some((n, vec![])), tol: 0.0 });
        out.push(TextCase { name: format!("definition only, registers {:?}", comp), text: format!("{}gate foo a {{ h a; }}\n", t), expect: Some((n, vec![])), tol: 0.0 });
        out.push(TextCase { name: format!("one gate on the last qubit, registers {:?}", comp), text: format!("{}x {}[{}];\n", t, names[comp.len() - 1], comp[comp.len() - 1] - 1), expect: Some((n, vec![("x".to_string(), vec![n - 1], 0, 1)])), tol: 0.0 });
    }
    // registers declared after the first statement (OpenQASM 2 allows declarations anywhere): still consecutive qubits in
    // declaration order, and gates on the late register land there
    out.push(TextCase { name: "late register".into(), text: format!("{}qreg q[2];\nh q[0];\nqreg r[2];\ncx q[0], r[1];\nx r[0];\n", hdr()), expect: Some((4, vec![("h".into(), vec![0], 0, 1), ("cx".into(), vec![0, 3], 0, 1), ("x".into(), vec![2], 0, 1)])), tol: 0.0 });
    out.push(TextCase { name: "late register after a definition".into(), text: format!("{}qreg a[1];\ngate foo x {{ h x; }}\nfoo a[0];\nqreg b[2];\ncreg m[1];\nqreg c[1];\ncz b[1], c[0];\n", hdr()), expect: Some((4, vec![("h".into(), vec![0], 0, 1), ("cz".into(), vec![2, 3], 0, 1)])), tol: 0.0 });
    out.push(TextCase { name: "late register unused".into(), text: format!("{}qreg a[1];\nx a[0];\nqreg b[3];\n", hdr()), expect: Some((4, vec![("x".into(), vec![0], 0, 1)])), tol: 0.0 });
    // nested gate definitions, as deep as and deeper than the number of declared qubits
    out.push(TextCase { name: "definition on one qubit".into(), text: format!("{}qreg q[1];\ngate foo a {{ h a; t a; }}\nfoo q[0];\n", hdr()), expect: Some((1, vec![("h".into(), vec![0], 0, 1), ("t".into(), vec![0], 0, 1)])), tol: 0.0 });
    out.push(TextCase { name: "two-level definitions on two qubits".into(), text: format!("{}qreg q[2];\ngate inner a {{ s a; }}\ngate outer a, b {{ inner a; cx a, b; inner b; }}\nouter q[1], q[0];\n", hdr()), expect: Some((2, vec![("s".into(), vec![1], 0, 1), ("cx".into(), vec![1, 0], 0, 1), ("s".into(), vec![0], 0, 1)])), tol: 0.0 });
    out.push(TextCase { name: "four-level definitions on three qubits".into(), text: format!("{}qreg q[3];\ngate l1 a {{ t a; }}\ngate l2 a {{ l1 a; h a; }}\ngate l3 a, b {{ l2 a; cz a, b; }}\ngate l4 a, b, c {{ l3 a, b; l3 b, c; }}\nl4 q[0], q[1], q[2];\n", hdr()), expect: Some((3, vec![("t".into(), vec![0], 0, 1), ("h".into(), vec![0], 0, 1), ("cz".into(), vec![0, 1], 0, 1), ("t".into(), vec![1], 0, 1), ("h".into(), vec![1], 0, 1), ("cz".into(), vec![1, 2], 0, 1)])), tol: 0.0 });
    out.push(TextCase { name: "parameterised nested definition".into(), text: format!("{}qreg q[1];\ngate r(x) a {{ rz(x) a; }}\ngate rr(x) a {{ r(x) a; r(x/2) a; }}\nrr(pi/2) q[0];\n", hdr()), expect: Some((1, vec![("rz".into(), vec![0], 1, 2), ("rz".into(), vec![0], 1, 4)])), tol: 0.0 });
    // user-defined gates are expanded, comments and whitespace ignored
    out.push(TextCase { name: "gate definition".into(), text: format!("{}qreg q[2];\ngate foo a, b {{ h a; cx a, b; }}\n// comment\nfoo q[1], q[0];\n", hdr()), expect: Some((2, vec![("h".into(), vec![1], 0, 1), ("cx".into(), vec![1, 0], 0, 1)])), tol: 0.0 });
    out.push(TextCase { name: "all plain gates".into(), text: format!("{}qreg q[3];\nx q[0]; z q[1]; s q[2]; t q[0]; sdg q[1]; tdg q[2]; h q[0]; cx q[0],q[1]; cz q[1],q[2]; ccx q[0],q[1],q[2]; ccz q[2],q[1],q[0]; swap q[0],q[2]; xcx q[1],q[0]; init_anc q[2]; post_sel q[2];\n", hdr()),
        expect: Some((3, vec![("x".into(), vec![0], 0, 1), ("z".into(), vec![1], 0, 1), ("s".into(), vec![2], 0, 1), ("t".into(), vec![0], 0, 1), ("sdg".into(), vec![1], 0, 1), ("tdg".into(), vec![2], 0, 1), ("h".into(), vec![0], 0, 1), ("cx".into(), vec![0, 1], 0, 1), ("cz".into(), vec![1, 2], 0, 1), ("ccx".into(), vec![0, 1, 2], 0, 1), ("ccz".into(), vec![2, 1, 0], 0, 1), ("swap".into(), vec![0, 2], 0, 1), ("xcx".into(), vec![1, 0], 0, 1), ("init_anc".into(), vec![2], 0, 1), ("post_sel".into(), vec![2], 0, 1)])), tol: 0.0 });
    // zero-gate programs keep their qubit count
    for n in 1..=3usize {
        out.push(TextCase { name: format!("zero gates, {} qubits", n), text: format!("{}qreg q[{}];\n", hdr(), n), expect: Some((n, vec![])), tol: 0.0 });
    }
    // unsupported constructs must be errors
    let q2 = |body: &str| format!("{}qreg q[2];\ncreg c[2];\n{}\n", hdr(), body);
    for (name, body) in [
        ("barrier", "h q[0]; barrier q[0], q[1]; h q[1];"),
        ("barrier-register", "h q[0]; barrier q;"),
        ("reset", "h q[0]; reset q[0];"),
        ("conditional", "h q[0]; if(c==1) x q[0];"),
        ("conditional-first", "if(c==0) x q[0];"),
        ("U gate", "U(0.1,0.2,0.3) q[0];"),
        ("u3 from qelib", "u3(0.1,0.2,0.3) q[0];"),
        ("undefined gate", "h q[0]; frobnicate q[0];"),
        ("duplicate argument", "cx q[0], q[0];"),
        ("index out of range", "h q[5];"),
        ("undeclared register", "h r[0];"),
        ("division by zero", "rz(pi/0) q[0];"),
        ("wrong arity", "cx q[0];"),
        ("missing semicolon", "h q[0]"),
        ("garbage", "this is not qasm"),
    ] {
        out.push(TextCase { name: format!("unsupported: {}", name), text: q2(body), expect: None, tol: 0.0 });
    }
    out
}

fn judge_text(st: &mut Stats, tc: &TextCase) {
    st.inc("cases");
    st.inc("evaluations");
    let wit = || json!({"kind": "text", "name": tc.name, "text": tc.text});
    let cls = tc.name.split(|c: char| c == ':' || c == ' ').next().unwrap_or("").to_string() + if tc.name.starts_with("unsupported") { &tc.name[11..] } else { "" };
    match guarded(|| Circuit::from_qasm(&tc.text)) {
        Err(p) => st.violation(Violation { sig: format!("parse|{}|panic|{}", cls, last_panic_site()), detail: format!("{}\n{}", p, tc.text), witness: wit() }),
        Ok(r) => match (&tc.expect, r) {
            (None, Err(_)) => st.inc("nontrivial"),
            (None, Ok(c)) => st.violation(Violation { sig: format!("parse|{}|accepted", cls), detail: format!("unsupported construct was accepted and produced {} gate(s):\n{}", c.num_gates(), tc.text), witness: wit() }),
            (Some(_), Err(e)) => st.violation(Violation { sig: format!("parse|{}|rejected", cls), detail: format!("{}\n{}", e, tc.text), witness: wit() }),
            (Some((q, gates)), Ok(c)) => {
                let mut bad = None;
                if c.num_qubits() != *q {
                    bad = Some(format!("qubit-count: {} qubits, expected {}", c.num_qubits(), q));
                } else if c.num_gates() != gates.len() {
                    bad = Some(format!("gate-count: {} gates, expected {}", c.num_gates(), gates.len()));
                } else {
                    for (g, (n, qs, num, den)) in c.gates.iter().zip(gates) {
                        let ph_ok = if tc.tol == 0.0 {
                            g.phase == quizx::phase::Phase::new(Rational64::new(*num, *den))
                        } else {
                            let want = *num as f64 / *den as f64;
                            let d = (g.phase.to_f64() - want).rem_euclid(2.0);
                            d.min(2.0 - d) <= tc.tol
                        };
                        if g.t.qasm_name() != n || g.qs != *qs || !ph_ok {
                            bad = Some(format!("gate: parsed {:?}, expected {} {:?} phase {}/{}", g, n, qs, num, den));
                            break;
                        }
                    }
                }
                match bad {
                    Some(b) => st.violation(Violation { sig: format!("parse|{}|wrong|{}", cls, b.split(':').next().unwrap_or("")), detail: format!("{}\n{}", b, tc.text), witness: wit() }),
                    None => st.inc("nontrivial"),
                }
            }
        },
    }
}

pub fn run(rep: &mut Report) {
    rep.rule = "case = one circuit printed and parsed back (structural equality), or one QASM text with its expected gate list / required error; non-trivial = round trip identical, text parsed as expected, or unsupported construct rejected with Err".into();
    rep.assume("pp and measure_r are not in the property's gate list (the parser prelude does not declare them) and are not printed here");
    let quick = rep.quick();
    // every gate kind x every argument tuple x every phase k/d, d <= 16
    let t0 = Instant::now();
    let mut singles: Vec<Circuit> = vec![];
    let (qmax, dmax) = if quick { (3usize, 16i64) } else { (4, 128) };
    for q in 1..=qmax {
        for (t, ar, has_phase) in kinds() {
            if ar > q {
                continue;
            }
            for qs in tuples(q, ar) {
                if has_phase {
                    for d in 1..=dmax {
                        for k in (-d + 1)..=d {
                            if num::integer::gcd(k, d) != 1 && !(k == 0 && d == 1) {
                                continue;
                            }
                            let mut c = Circuit::new(q);
                            c.push(Gate::new_with_phase(t, qs.clone(), Rational64::new(k, d)));
                            singles.push(c);
                        }
                    }
                } else {
                    let mut c = Circuit::new(q);
                    c.push(Gate::new(t, qs.clone()));
                    singles.push(c);
                }
            }
        }
    }
    // (a 0-qubit circuit prints `qreg q[0];`, which OpenQASM 2 itself forbids: out of domain, not judged)
    for q in 1..=3usize {
        singles.push(Circuit::new(q));
    }
    let stats = sweep(&singles, |st, _, c| {
        let cls = if c.num_gates() == 0 { if c.num_qubits() == 0 { "empty-0q" } else { "zero-gates" } } else { "single" };
        roundtrip(st, c, cls);
        st.sample(1, || json!({"qasm": c.to_qasm()}));
    });
    rep.absorb("single gates", &format!("every gate kind of the property's list x every ordered tuple of distinct qubits on 1..{} qubits x every reduced phase k/d with d <= {} (rz, rx); zero-gate circuits on 1..3 qubits", qmax, dmax), true, None, t0, stats);
    // sequences
    for (q, d) in if quick { vec![(2usize, 3usize), (3, 2), (3, 3)] } else { vec![(2, 4), (3, 3), (4, 2), (2, 5), (3, 4)] } {
        let t0 = Instant::now();
        let mut alpha: Vec<Gate> = alpha_full(q).into_iter().filter(|g| g.t != ParityPhase).collect();
        alpha.push(gp(ZPhase, vec![0], (5, 16)));
        alpha.push(gp(XPhase, vec![q - 1], (-7, 12)));
        alpha.push(Gate::new(InitAncilla, vec![0]));
        alpha.push(Gate::new(PostSelect, vec![q - 1]));
        let n = circuit_count(alpha.len(), d);
        let stats = sweep_range(n, |st, idx| {
            let c = circuit_at(q, &alpha, d, idx);
            if c.num_gates() > 0 {
                roundtrip(st, &c, "sequence");
            }
        });
        rep.absorb(&format!("sequences K({},{})", q, d), "every gate sequence over the printable alphabet", true, None, t0, stats);
    }
    // texts
    let t0 = Instant::now();
    let texts = text_cases();
    let mut st = Stats::default();
    for tc in &texts {
        judge_text(&mut st, tc);
        st.sample(3, || json!({"text": tc.text}));
    }
    rep.absorb("texts", "register splits of <= 4 qubits into <= 3 registers (with broadcast), phase spellings (rational multiples of pi, decimal multiples, decimal radians), gate definitions, and one text per unsupported construct (barrier, reset, conditional, U, undefined gate, duplicate argument, bad index, division by zero, malformed)", true, None, t0, st);
}

pub fn replay(w: &Value) -> Option<Violation> {
    let mut st = Stats::default();
    if w["kind"] == "text" {
        let name = w["name"].as_str()?;
        for tc in text_cases() {
            if tc.name == name {
                judge_text(&mut st, &tc);
            }
        }
    } else {
        let c = circuit_from_json(&w["circuit"])?;
        let cls = if c.num_gates() == 0 { if c.num_qubits() == 0 { "empty-0q" } else { "zero-gates" } } else { "single" };
        roundtrip(&mut st, &c, cls);
    }
    st.viols.into_values().next().map(|(_, v)| v)
}
