//! C12 — equality checkers never give a wrong definite answer; the tensor-based checker is exact.

use crate::conv::*;
use qzv_ref::ring::Ring;
use crate::gen::*;
use crate::report::*;
use crate::sweep_range;
use quizx::circuit::Circuit;
use quizx::equality::*;
use quizx::extract::ToCircuit;
use quizx::gate::*;
use quizx::graph::*;
use quizx::simplify::*;
use quizx::vec_graph::Graph;
use serde_json::{json, Value};
use std::time::Instant;

fn sim3(c: &Circuit) -> (Tensor, usize, usize) {
    sim_circuit(&to_rcircuit(c, &[]).unwrap())
}

pub fn judge_pair(st: &mut Stats, c1: &Circuit, c2: &Circuit, relation: &'static str) {
    st.inc("cases");
    // arity = (inputs, outputs): ancilla initialisation removes an input, post-selection an output
    let ((t1, i1, o1), (t2, i2, o2)) = (sim3(c1), sim3(c2));
    let same_dim = (i1, o1) == (i2, o2);
    let eq = same_dim && tensors_equal(&t1, &t2);
    let prop = same_dim && tensors_prop(&t1, &t2);
    // 'equal' is only promised for circuits / unitary diagrams: V1^dagger V2 = 1 implies V1 = V2 for isometries, not once
    // a post-selection makes a map non-isometric; such answers are counted, not judged
    let isometric = !c1.gates.iter().chain(c2.gates.iter()).any(|g| g.t == PostSelect);
    let exact_track = matches!((&t1, &t2), (Tensor::Exact(_), Tensor::Exact(_)));
    let wit = |what: &str| json!({"kind": "pair", "c1": circuit_json(c1), "c2": circuit_json(c2), "relation": relation, "what": what, "qasm1": c1.to_qasm(), "qasm2": c2.to_qasm()});
    for phase in [true, false] {
        st.inc("evaluations");
        let what = format!("equal_circuit_with_options(up_to_global_phase={})", phase);
        match guarded(|| equal_circuit_with_options(c1, c2, phase)) {
            Err(p) => st.violation(Violation { sig: format!("equal_circuit|panic|{}|{}", relation, last_panic_site()), detail: p, witness: wit(&what) }),
            Ok(Some(true)) if !isometric => st.inc("equal_answers_on_post_selected_maps_not_judged"),
            Ok(Some(true)) => {
                let ok = if phase { prop } else { eq };
                if !ok {
                    st.violation(Violation { sig: format!("equal_circuit|phase={}|wrong-true|{}", phase, relation), detail: format!("answered equal, but the maps are equal={} proportional={} (qubits {} / {})", eq, prop, c1.num_qubits(), c2.num_qubits()), witness: wit(&what) });
                } else {
                    st.inc("nontrivial");
                }
            }
            Ok(Some(false)) => {
                if eq {
                    st.violation(Violation { sig: format!("equal_circuit|phase={}|wrong-false|{}", phase, relation), detail: "answered not equal, but the maps are identical".into(), witness: wit(&what) });
                } else {
                    st.inc("nontrivial");
                }
            }
            Ok(None) => st.inc("unknown_answers"),
        }
    }
    // default entry point = up to global phase
    if let Ok(r) = guarded(|| equal_circuit(c1, c2)) {
        if r == Some(true) && !prop && isometric {
            st.violation(Violation { sig: format!("equal_circuit-default|wrong-true|{}", relation), detail: "equal_circuit answered equal for non-proportional maps".into(), witness: wit("equal_circuit") });
        }
    }
    // dimension helper and tensor checker
    st.inc("evaluations");
    match guarded(|| equal_circuit_dim(c1, c2)) {
        Ok(d) if d == same_dim => {}
        Ok(d) => st.violation(Violation { sig: "equal_circuit_dim|wrong".into(), detail: format!("answered {} for arities {:?} / {:?}", d, (i1, o1), (i2, o2)), witness: wit("equal_circuit_dim") }),
        Err(p) => st.violation(Violation { sig: "equal_circuit_dim|panic".into(), detail: p, witness: wit("equal_circuit_dim") }),
    }
    if !exact_track && same_dim {
        // tolerance track: the tensor checker cannot be asked for exact equality of floats, but it must not call two
        // maps identical that clearly differ (largest entry difference above 1e-6)
        let cv = |t: &Tensor| -> Vec<num::complex::Complex64> {
            match t {
                Tensor::Exact(v) => v.iter().map(|x| x.to_c64()).collect(),
                Tensor::Float(v, _) => v.iter().map(|x| x.0).collect(),
                Tensor::Bad(_) => vec![],
            }
        };
        let (a, b) = (cv(&t1), cv(&t2));
        if !a.is_empty() && a.len() == b.len() {
            let far = a.iter().zip(&b).map(|(x, y)| (x - y).norm()).fold(0.0, f64::max) > 1e-6;
            if far {
                st.inc("evaluations");
                if let Ok(true) = guarded(|| equal_circuit_tensor(c1, c2)) {
                    st.violation(Violation { sig: format!("equal_circuit_tensor|wrong-true-on-clearly-different-maps|{}", relation), detail: "answered true, the reference tensors differ by more than 1e-6".into(), witness: wit("equal_circuit_tensor") });
                }
            }
        }
    }
    if exact_track {
        st.inc("evaluations");
        match guarded(|| equal_circuit_tensor(c1, c2)) {
            Ok(d) if d == eq => {}
            Ok(d) => st.violation(Violation { sig: format!("equal_circuit_tensor|wrong|got={}|{}", d, relation), detail: format!("answered {}, identical tensors = {}", d, eq), witness: wit("equal_circuit_tensor") }),
            Err(p) => st.violation(Violation { sig: format!("equal_circuit_tensor|panic|{}", last_panic_site()), detail: p, witness: wit("equal_circuit_tensor") }),
        }
    }
    // graph-level entry points, with a simplifier applied to one side (non-initial diagrams)
    let cs: fn(&mut Graph) -> bool = clifford_simp;
    let fs: fn(&mut Graph) -> bool = full_simp;
    for (sname, f) in [("none", None), ("clifford_simp", Some(cs)), ("full_simp", Some(fs))] {
        st.inc("evaluations");
        let mut g1: Graph = c1.to_graph();
        let g2: Graph = c2.to_graph();
        if let Some(f) = f {
            f(&mut g1);
        }
        let what = format!("equal_graph_with_options after {}", sname);
        for phase in [true, false] {
            match guarded(|| equal_graph_with_options(&g1, &g2, phase)) {
                Err(p) => st.violation(Violation { sig: format!("equal_graph|panic|{}|{}", sname, last_panic_site()), detail: p, witness: wit(&what) }),
                Ok(Some(true)) if isometric && !(if phase { prop } else { eq }) => st.violation(Violation { sig: format!("equal_graph|phase={}|wrong-true|{}|{}", phase, sname, relation), detail: "answered equal for maps that are not".into(), witness: wit(&what) }),
                Ok(Some(false)) if eq => st.violation(Violation { sig: format!("equal_graph|phase={}|wrong-false|{}|{}", phase, sname, relation), detail: "answered not equal for identical maps".into(), witness: wit(&what) }),
                _ => {}
            }
        }
        if exact_track {
            if let Ok(d) = guarded(|| equal_graph_tensor(&g1, &g2)) {
                if d != eq {
                    st.violation(Violation { sig: format!("equal_graph_tensor|wrong|got={}|{}", d, sname), detail: format!("answered {}, identical tensors = {}", d, eq), witness: wit("equal_graph_tensor") });
                }
            }
        }
        if let Ok(d) = guarded(|| equal_graph_dim(&g1, &g2)) {
            if d != same_dim {
                st.violation(Violation { sig: "equal_graph_dim|wrong".into(), detail: format!("answered {}", d), witness: wit("equal_graph_dim") });
            }
        }
    }
}

/// partners of a circuit that are equal / different by construction
pub fn partners(c: &Circuit) -> Vec<(&'static str, Circuit)> {
    let q = c.num_qubits();
    let mut out: Vec<(&'static str, Circuit)> = vec![("itself", c.clone())];
    // re-extraction
    let mut g: Graph = c.to_graph();
    full_simp(&mut g);
    if let Ok(e) = g.to_circuit() {
        out.push(("re-extracted", e));
    }
    // cancelling pair inserted in front and at the end
    let mut d = Circuit::new(q);
    d.push(g1(HAD, 0));
    d.push(g1(HAD, 0));
    for g in &c.gates {
        d.push(g.clone());
    }
    if q > 1 {
        d.push(Gate::new(CNOT, vec![0, q - 1]));
        d.push(Gate::new(CNOT, vec![0, q - 1]));
    }
    out.push(("cancelling-pairs", d));
    // first two gates commuted when they act on disjoint qubits
    if c.num_gates() >= 2 {
        let (a, b) = (&c.gates[0], &c.gates[1]);
        if a.qs.iter().all(|x| !b.qs.contains(x)) {
            let mut d = c.clone();
            d.gates.swap(0, 1);
            out.push(("commuted", d));
        }
    }
    // one gate changed: T appended / last gate dropped
    let mut d = c.clone();
    d.push(g1(T, q - 1));
    out.push(("one-gate-more", d));
    if c.num_gates() > 0 {
        let mut d = c.clone();
        d.gates.pop_back();
        out.push(("one-gate-less", d));
    }
    // global phase -1: Z X Z X
    let mut d = c.clone();
    for t in [Z, NOT, Z, NOT] {
        d.push(g1(t, 0));
    }
    out.push(("global-phase-minus-one", d));
    // global phase i: S X S X ... (S X S X = i * I up to... use rz(1/2) x rz(1/2) x = i I)
    let mut d = c.clone();
    for t in [S, NOT, S, NOT] {
        d.push(g1(t, 0));
    }
    out.push(("global-phase-i", d));
    // Hadamard on a wire
    let mut d = c.clone();
    d.push(g1(HAD, q - 1));
    out.push(("hadamard-on-wire", d));
    // wire permutation
    if q > 1 {
        let mut d = c.clone();
        d.push(Gate::new(SWAP, vec![0, q - 1]));
        out.push(("wire-permutation", d));
        let mut d = Circuit::new(q);
        d.push(Gate::new(SWAP, vec![0, q - 1]));
        for g in &c.gates {
            d.push(g.clone());
        }
        d.push(Gate::new(SWAP, vec![0, q - 1]));
        out.push(("conjugated-by-swap", d));
    }
    // different qubit count
    let mut d = Circuit::new(q + 1);
    for g in &c.gates {
        d.push(g.clone());
    }
    out.push(("extra-qubit", d));
    out
}

pub fn run(rep: &mut Report) {
    rep.rule = "case = ordered pair of unitary circuits; ground truth = reference gate-matrix simulation (exact and projective); a definite answer of the rewriting-based checker must be right, 'unknown' is always acceptable; the tensor checker must be exactly right; non-trivial = a definite and correct answer".into();
    rep.assume("only unitary circuits are paired (for non-unitary diagrams g1^dagger g2 = identity does not imply equality; the property speaks of circuits or unitary diagrams)");
    let quick = rep.quick();
    // all ordered pairs of a small family
    let mut a2 = alpha_ct(2);
    a2.push(Gate::new(SWAP, vec![0, 1]));
    for (name, q, alpha, d) in if quick { vec![("pairs K(2,2,A_ct+swap)", 2usize, a2.clone(), 2usize), ("pairs K(1,3,A_ct)", 1, alpha_ct(1), 3), ("pairs K(1,2,A_tol)", 1, alpha_tol(1), 2)] } else { vec![("pairs K(2,2,A_ct+swap)", 2, a2.clone(), 2), ("pairs K(1,3,A_ct)", 1, alpha_ct(1), 3), ("pairs K(2,2,A_full)", 2, alpha_full(2), 2), ("pairs K(3,1,A_full)", 3, alpha_full(3), 1), ("pairs K(1,3,A_tol)", 1, alpha_tol(1), 3)] } {
        let t0 = Instant::now();
        let n = circuit_count(alpha.len(), d);
        let stats = sweep_range(n * n, |st, idx| {
            watch_begin(idx, 0);
            let c1 = circuit_at(q, &alpha, d, idx / n);
            let c2 = circuit_at(q, &alpha, d, idx % n);
            judge_pair(st, &c1, &c2, "independent");
            watch_end();
        });
        rep.absorb(name, &format!("all {} ordered pairs of circuits with <= {} gates on {} qubits", n * n, d, q), true, None, t0, stats);
    }
    {
        let t0 = Instant::now();
        let mut st = Stats::default();
        head_tail_family(&mut st, if quick { 3 } else { 4 });
        rep.absorb("head/tail exchanges", "every head of <= 3 (thorough 4) Pauli / S / T gates on 2 qubits followed by one of 4 entangling tails (phase gadgets after simplification), against the same circuit with two adjacent head gates exchanged", true, None, t0, st);
    }
    // isometries and post-selected maps: ancilla initialisation in front, a short body, post-selection at the end
    {
        let t0 = Instant::now();
        let q = 2usize;
        let alpha = alpha_ct(q);
        let depth = if quick { 1 } else { 2 };
        let nb = circuit_count(alpha.len(), depth);
        let masks: Vec<(u32, u32)> = (0..3u32).flat_map(|a| (0..3u32).map(move |b| (a, b))).filter(|&m| m != (0, 0)).collect();
        let build = |m: (u32, u32), body: u64| {
            let mut c = Circuit::new(q);
            // mask 0 = none, 1 = qubit 0, 2 = qubit 1
            if m.0 > 0 {
                c.push(Gate::new(InitAncilla, vec![(m.0 - 1) as usize]));
            }
            for g in circuit_at(q, &alpha, depth, body).gates.iter() {
                c.push(g.clone());
            }
            if m.1 > 0 {
                c.push(Gate::new(PostSelect, vec![(m.1 - 1) as usize]));
            }
            c
        };
        let nm = masks.len() as u64;
        // same arity: every ordered pair of bodies; different arities: every ordered pair of masks on the first bodies
        let stats = sweep_range(nm * nb * nb + nm * nm * 4, |st, idx| {
            watch_begin(idx, 4);
            if idx < nm * nb * nb {
                let m = masks[(idx / (nb * nb)) as usize];
                let r = idx % (nb * nb);
                judge_pair(st, &build(m, r / nb), &build(m, r % nb), "ancilla-same-arity");
            } else {
                let r = idx - nm * nb * nb;
                let (ma, mb) = (masks[((r / 4) / nm) as usize], masks[((r / 4) % nm) as usize]);
                judge_pair(st, &build(ma, r % 4), &build(mb, (r % 4) / 2), "ancilla-mixed-arity");
            }
            watch_end();
        });
        rep.absorb("ancilla and post-selection pairs", &format!("2-qubit circuits init_anc(S) ; body of <= {} gates ; post_sel(S') for the 8 non-trivial (S, S'): every ordered pair of bodies at equal arity, every ordered pair of arities on four bodies; 'not equal' and the tensor / dimension helpers judged on all of them, 'equal' on the isometric ones (no post-selection)", depth), true, None, t0, stats);
    }
    // constructed partners
    for (name, q, alpha, d) in if quick { vec![("partners K(2,3,A_ct)", 2usize, alpha_ct(2), 3usize), ("partners K(3,1,A_full)", 3, alpha_full(3), 1), ("partners K(2,1,A_tol)", 2, alpha_tol(2), 1), ("partners K(1,3,A_tol)", 1, alpha_tol(1), 3), ("partners K(3,2,A_pp)", 3, alpha_pp(3), 2)] } else { vec![("partners K(2,3,A_ct)", 2, alpha_ct(2), 3), ("partners K(3,2,A_ct)", 3, alpha_ct(3), 2), ("partners K(3,2,A_full)", 3, alpha_full(3), 2), ("partners K(2,2,A_tol)", 2, alpha_tol(2), 2), ("partners K(1,4,A_tol)", 1, alpha_tol(1), 4), ("partners K(2,3,A_tol)", 2, alpha_tol(2), 3), ("partners K(3,3,A_pp)", 3, alpha_pp(3), 3)] } {
        let t0 = Instant::now();
        let n = circuit_count(alpha.len(), d);
        let stats = sweep_range(n, |st, idx| {
            watch_begin(idx, 1);
            let c = circuit_at(q, &alpha, d, idx);
            for (rel, p) in partners(&c) {
                judge_pair(st, &c, &p, rel);
                judge_pair(st, &p, &c, rel);
            }
            st.sample(1, || json!({"qasm": c.to_qasm()}));
            watch_end();
        });
        rep.absorb(name, "each circuit against: itself, its re-extraction, inserted cancelling pairs, a commuted pair, one gate more / less, global phases -1 and i, a Hadamard on a wire, a wire permutation, conjugation by SWAP, an extra qubit (both orders)", true, None, t0, stats);
    }
}

/// heads of single-qubit Pauli / phase gates followed by a fixed entangling tail; partner = the same circuit with two
/// adjacent head gates exchanged (equal when they commute, different otherwise: the checker must not be fooled)
fn head_tail_family(st: &mut Stats, head_depth: usize) {
    let q = 2;
    let mut alpha = vec![];
    for i in 0..q {
        for t in [NOT, Z, T, S] {
            alpha.push(g1(t, i));
        }
    }
    let tails: Vec<Vec<Gate>> = vec![
        vec![g1(HAD, 0), g1(HAD, 1), Gate::new(CZ, vec![0, 1]), Gate::new(CNOT, vec![0, 1])],
        vec![g1(HAD, 0), Gate::new(CNOT, vec![0, 1]), g1(T, 1), Gate::new(CNOT, vec![0, 1]), g1(HAD, 0)],
        vec![Gate::new(CNOT, vec![1, 0]), g1(HAD, 1), g1(T, 0), Gate::new(CZ, vec![0, 1])],
        vec![g1(HAD, 0), g1(HAD, 1), Gate::new(CZ, vec![0, 1]), g1(HAD, 0), g1(T, 0), g1(HAD, 1)],
    ];
    let n = circuit_count(alpha.len(), head_depth);
    let stats = sweep_range(n, |st, idx| {
        let head = circuit_at(q, &alpha, head_depth, idx);
        if head.num_gates() < 2 {
            return;
        }
        for tail in &tails {
            let mut c = head.clone();
            for g in tail {
                c.push(g.clone());
            }
            for pos in 0..head.num_gates() - 1 {
                let mut d = c.clone();
                d.gates.swap(pos, pos + 1);
                if d != c {
                    judge_pair(st, &c, &d, "adjacent-gates-exchanged");
                }
            }
        }
    });
    *st = std::mem::take(st).merge(stats);
}

pub fn replay(w: &Value) -> Option<Violation> {
    let c1 = circuit_from_json(&w["c1"])?;
    let c2 = circuit_from_json(&w["c2"])?;
    let mut st = Stats::default();
    judge_pair(&mut st, &c1, &c2, "replayed");
    println!("c1:\n{}c2:\n{}", c1.to_qasm(), c2.to_qasm());
    st.viols.into_values().next().map(|(_, v)| v)
}
