//! C13 — qgraph JSON encoding round-trips diagrams (isomorphism anchored at inputs / outputs, data preserved,
//! scalar exact for sqrt2^p e^{ik pi/4} and to tolerance otherwise); serde of the hash back end obeys the same contract.

use crate::conv::*;
use crate::gen::*;
use crate::report::*;
use crate::sweep;
use num::Rational64;
use quizx::graph::*;
use quizx::json::{decode_graph, encode_graph};
use quizx::scalar::*;
use qzv_ref::ring::*;
use serde_json::{json, Value};
use std::time::Instant;

#[derive(Clone, Debug)]
pub enum ScalarSpec {
    One,
    /// sqrt2^p * e^{i k pi/4}
    Unit(i32, i64),
    /// integer combination [a,b,c,d] * 2^p (arises from Clifford+T rewriting)
    Ring([i64; 4], i32),
    Float(f64, f64),
    Zero,
}

impl ScalarSpec {
    fn build(&self) -> Scalar4 {
        match self {
            ScalarSpec::One => Scalar4::one(),
            ScalarSpec::Unit(p, k) => {
                let mut s = Scalar4::from_phase(Rational64::new(*k, 4));
                s.mul_sqrt2_pow(*p);
                s
            }
            ScalarSpec::Ring(c, p) => Scalar4::new(*c, *p),
            ScalarSpec::Float(re, im) => Scalar4::complex(*re, *im),
            ScalarSpec::Zero => Scalar4::zero(),
        }
    }
    fn named_form(&self) -> bool {
        matches!(self, ScalarSpec::One | ScalarSpec::Unit(_, _))
    }
    fn to_json(&self) -> Value {
        json!(format!("{:?}", self))
    }
}

#[derive(Clone, Debug)]
pub struct Case {
    spec: DiagSpec,
    /// extra per-vertex decoration: (vertex, qubit, row)
    coords: Vec<(usize, f64, f64)>,
    /// vertices turned into H-boxes (structural)
    hboxes: Vec<usize>,
    /// phase override on one vertex (numerator, denominator)
    phase: Option<(usize, i64, i64)>,
    scalar: ScalarSpec,
    /// number of dummy vertices created first and removed afterwards (non-contiguous vertex ids)
    gap: usize,
}

impl Case {
    fn build<G: GraphLike>(&self) -> G {
        let mut g: G = if self.gap == 0 {
            self.spec.build()
        } else {
            // the same diagram with its ids shifted past removed vertices
            let mut g = G::new();
            let dummies: Vec<V> = (0..self.gap).map(|_| g.add_vertex(VType::Z)).collect();
            let ids: Vec<V> = self
                .spec
                .verts
                .iter()
                .map(|v| {
                    let ty = match v.kind {
                        0 => VType::B,
                        1 => VType::Z,
                        _ => VType::X,
                    };
                    g.add_vertex_with_phase(ty, Rational64::new(v.num as i64, v.den as i64))
                })
                .collect();
            for &(a, b, h) in &self.spec.edges {
                g.add_edge_with_type(ids[a as usize], ids[b as usize], if h { EType::H } else { EType::N });
            }
            g.set_inputs(self.spec.inputs.iter().map(|&x| ids[x as usize]).collect());
            g.set_outputs(self.spec.outputs.iter().map(|&x| ids[x as usize]).collect());
            for d in dummies {
                g.remove_vertex(d);
            }
            g
        };
        let off = if self.gap == 0 { 0 } else { self.gap };
        for &(v, q, r) in &self.coords {
            g.set_qubit(v + off, q);
            g.set_row(v + off, r);
        }
        for &v in &self.hboxes {
            g.set_vertex_type(v + off, VType::H);
            g.set_phase(v + off, Rational64::new(1, 1));
        }
        if let Some((v, n, d)) = self.phase {
            g.set_phase(v + off, Rational64::new(n, d));
        }
        *g.scalar_mut() = self.scalar.build();
        g
    }
    fn to_json(&self) -> Value {
        json!({"spec": self.spec.to_json(), "coords": self.coords, "hboxes": self.hboxes, "phase": self.phase, "scalar": self.scalar.to_json(), "gap": self.gap})
    }
}

/// canonical form under isomorphisms that fix the inputs and outputs in order
fn canon<G: GraphLike>(g: &G) -> Result<String, String> {
    let mut anchored: Vec<V> = g.inputs().clone();
    anchored.extend(g.outputs().iter().copied());
    let free: Vec<V> = {
        let mut f: Vec<V> = g.vertices().filter(|v| !anchored.contains(v)).collect();
        f.sort();
        f
    };
    if free.len() > 7 {
        return Err("too many free vertices for the brute-force canonical form".into());
    }
    let describe = |v: V| {
        let d = g.vertex_data(v);
        let r = d.phase.to_rational();
        // coordinates compared to 12 significant digits (serde_json without float_roundtrip may move the last bit)
        format!("{:?}:{}/{}:q{:.11e}:r{:.11e}", d.ty, r.numer(), r.denom(), d.qubit, d.row)
    };
    // sort free vertices by their description first; only permute inside groups of identical descriptions
    let mut best: Option<String> = None;
    let mut perm: Vec<usize> = (0..free.len()).collect();
    fn heap(k: usize, perm: &mut Vec<usize>, f: &mut dyn FnMut(&[usize])) {
        if k <= 1 {
            f(perm);
            return;
        }
        for i in 0..k {
            heap(k - 1, perm, f);
            if k % 2 == 0 {
                perm.swap(i, k - 1)
            } else {
                perm.swap(0, k - 1)
            }
        }
    }
    heap(free.len(), &mut perm, &mut |p| {
        let order: Vec<V> = anchored.iter().copied().chain(p.iter().map(|&i| free[i])).collect();
        let idx = |v: V| order.iter().position(|&x| x == v).unwrap();
        let mut s = format!("in{} out{};", g.inputs().len(), g.outputs().len());
        for &v in &order {
            s += &describe(v);
            s.push(';');
        }
        let mut es: Vec<(usize, usize, u8)> = g.edges().map(|(a, b, e)| (idx(a).min(idx(b)), idx(a).max(idx(b)), e as u8)).collect();
        es.sort();
        s += &format!("{:?}", es);
        if best.as_ref().map(|b| s < *b).unwrap_or(true) {
            best = Some(s);
        }
    });
    Ok(best.unwrap_or_default())
}

fn scalars_match(spec: &ScalarSpec, a: &Scalar4, b: &Scalar4) -> Result<(), String> {
    if spec.named_form() {
        match (scalar_exact(a), scalar_exact(b)) {
            (Some(x), Some(y)) if x.eqv(&y) => Ok(()),
            _ => Err(format!("scalar of the exact form came back as {:?} (was {:?})", b.raw_parts(), a.raw_parts())),
        }
    } else {
        let (x, y) = (scalar_c64(a), scalar_c64(b));
        if (x - y).norm() <= 1e-9 * x.norm().max(1e-300) {
            Ok(())
        } else {
            Err(format!("scalar {:e}{:+e}i came back as {:e}{:+e}i (relative error {:e})", x.re, x.im, y.re, y.im, (x - y).norm() / x.norm()))
        }
    }
}

fn scls(s: &ScalarSpec) -> &'static str {
    match s {
        ScalarSpec::One => "one",
        ScalarSpec::Unit(_, _) => "unit-form",
        ScalarSpec::Ring(_, _) => "ring",
        ScalarSpec::Float(_, _) => "float",
        ScalarSpec::Zero => "zero",
    }
}

/// scratch directory of this process for the file round: a memory file system where there is one (millions of small
/// files are created and removed; on the disk the journal, not the code under test, sets the pace), the target dir otherwise
fn scratch_root() -> &'static str {
    static ROOT: std::sync::OnceLock<String> = std::sync::OnceLock::new();
    ROOT.get_or_init(|| {
        let shm = format!("/dev/shm/qzv-c13-{}", std::process::id());
        if std::fs::create_dir_all(&shm).is_ok() && std::fs::write(format!("{}/probe", shm), "x").is_ok() {
            let _ = std::fs::remove_file(format!("{}/probe", shm));
            shm
        } else {
            format!("/verif/target/scratch/c13-{}", std::process::id())
        }
    })
}

pub fn judge<G: GraphLike + 'static>(st: &mut Stats, case: &Case, backend: &'static str, with_eval: bool) {
    st.inc("evaluations");
    let g: G = case.build();
    let wit = || json!({"kind": "case", "case": case.to_json(), "backend": backend});
    let want = match canon(&g) {
        Ok(c) => c,
        Err(_) => return,
    };
    let txt = match guarded(|| encode_graph(&g)) {
        Err(p) => {
            st.violation(Violation { sig: format!("encode|panic|{}", p.rsplit(" @ ").next().unwrap_or("")), detail: p, witness: wit() });
            return;
        }
        Ok(Err(e)) => {
            st.violation(Violation { sig: "encode|error".into(), detail: format!("{}", e), witness: wit() });
            return;
        }
        Ok(Ok(t)) => t,
    };
    // three decodings: the decoder iterates std HashMaps whose order differs per instance; a fourth round goes through
    // the file API (write_graph, then read_graph, which decodes from a reader instead of a string)
    for round in 0..4 {
        let via_file = round == 3;
        let decoded = guarded(|| {
            if via_file {
                static NEXT: std::sync::atomic::AtomicU64 = std::sync::atomic::AtomicU64::new(0);
                // one directory per worker thread: sixteen threads creating and removing files in one directory serialise on it
                let dir = format!("{}/{}", scratch_root(), rayon::current_thread_index().unwrap_or(999));
                let _ = std::fs::create_dir_all(&dir);
                let f = format!("{}/g-{}.qgraph", dir, NEXT.fetch_add(1, std::sync::atomic::Ordering::Relaxed));
                let path = std::path::Path::new(&f);
                // the path already holds something longer (an earlier, bigger file): writing replaces it
                let _ = std::fs::write(path, "x".repeat(txt.len() + 100));
                let r = quizx::json::write_graph(&g, path).and_then(|_| quizx::json::read_graph::<G>(path));
                let _ = std::fs::remove_file(path);
                r
            } else {
                decode_graph::<G>(&txt)
            }
        });
        let h: G = match decoded {
            Err(p) => {
                st.violation(Violation { sig: format!("decode|panic|{}", p.rsplit(" @ ").next().unwrap_or("")), detail: format!("{}\n{}", p, txt), witness: wit() });
                return;
            }
            Ok(Err(e)) => {
                st.violation(Violation { sig: format!("decode|error|scalar={}{}", scls(&case.scalar), if via_file { "|write_graph+read_graph" } else { "" }), detail: format!("{}\n{}", e, txt), witness: wit() });
                return;
            }
            Ok(Ok(h)) => h,
        };
        match canon(&h) {
            Ok(c) if c == want => {}
            Ok(c) => {
                let what = if h.num_vertices() != g.num_vertices() {
                    "vertex-count"
                } else if h.num_edges() != g.num_edges() {
                    "edge-count"
                } else if case.phase.is_some() {
                    "structure-or-phase"
                } else {
                    "structure-or-data"
                };
                st.violation(Violation { sig: format!("roundtrip|not-isomorphic|{}", what), detail: format!("round {}: original {}\n decoded {}", round, want, c), witness: wit() });
                return;
            }
            Err(e) => {
                st.violation(Violation { sig: "roundtrip|decoded-not-canonisable".into(), detail: e, witness: wit() });
                return;
            }
        }
        if let Err(e) = scalars_match(&case.scalar, g.scalar(), h.scalar()) {
            st.violation(Violation { sig: format!("roundtrip|scalar|{}", scls(&case.scalar)), detail: e, witness: wit() });
            return;
        }
        if with_eval && round == 0 && case.hboxes.is_empty() {
            let (a, b) = (eval_graph(&g, None), eval_graph(&h, None));
            if !a.is_bad() && !tensors_equal(&a, &b) {
                st.violation(Violation { sig: "roundtrip|different-map".into(), detail: format!("{} vs {}", a.show(), b.show()), witness: wit() });
                return;
            }
        }
    }
    st.inc("nontrivial");
}

fn judge_serde(st: &mut Stats, case: &Case) {
    st.inc("evaluations");
    let g: quizx::hash_graph::Graph = case.build();
    let wit = || json!({"kind": "serde", "case": case.to_json()});
    let Ok(want) = canon(&g) else { return };
    // every serde_json entry point: from a string, from a reader over the same bytes, and through a Value
    for route in ["from_str", "from_reader", "from_value"] {
      let r = guarded(|| match route {
        "from_str" => serde_json::to_string(&g).map_err(|e| e.to_string()).and_then(|t| serde_json::from_str::<quizx::hash_graph::Graph>(&t).map_err(|e| e.to_string())),
        "from_reader" => serde_json::to_vec(&g).map_err(|e| e.to_string()).and_then(|t| serde_json::from_reader::<_, quizx::hash_graph::Graph>(std::io::Cursor::new(t)).map_err(|e| e.to_string())),
        _ => serde_json::to_value(&g).map_err(|e| e.to_string()).and_then(|t| serde_json::from_value::<quizx::hash_graph::Graph>(t).map_err(|e| e.to_string())),
      });
      match r {
        Err(p) => st.violation(Violation { sig: format!("serde|panic|{}", route), detail: p, witness: wit() }),
        Ok(Err(e)) => st.violation(Violation { sig: format!("serde|error|{}", route), detail: e, witness: wit() }),
        Ok(Ok(h)) => {
            if canon(&h).ok().as_ref() != Some(&want) {
                st.violation(Violation { sig: "serde|not-isomorphic".into(), detail: format!("{:?}", canon(&h)), witness: wit() });
            } else if let Err(e) = scalars_match(&case.scalar, g.scalar(), h.scalar()) {
                st.violation(Violation { sig: format!("serde|scalar|{}", scls(&case.scalar)), detail: e, witness: wit() });
            } else {
                st.inc("nontrivial");
            }
        }
      }
    }
}

fn scalar_grid(quick: bool) -> Vec<ScalarSpec> {
    let mut v = vec![ScalarSpec::One, ScalarSpec::Zero];
    for p in if quick { vec![-3, -1, 1, 2] } else { (-6..=6).collect::<Vec<_>>() } {
        for k in 0..8 {
            v.push(ScalarSpec::Unit(p, k));
        }
    }
    // scalars that arise from Clifford+T rewriting but are not of the unit form
    for c in [[1, 1, 0, 0], [1, 0, 1, 0], [1, 2, 0, 0], [3, -1, 4, 1], [0, 1, 0, 1], [-1, 0, 1, 1], [1, 1, 1, 1], [2, 0, 0, 0], [-3, 0, 0, 0], [0, 0, 5, 0]] {
        for p in [0, -2, 3] {
            v.push(ScalarSpec::Ring(c, p));
        }
    }
    for (re, im) in [(0.5, 0.0), (0.3, -0.4), (-55.13, 1e-3), (1e-12, 2e-12), (0.0, 0.7), (-1.0, 1e-9)] {
        v.push(ScalarSpec::Float(re, im));
    }
    v
}

pub fn run(rep: &mut Report) {
    rep.rule = "case = one diagram (types, phases, edge kinds, coordinates, H-boxes, scalar) encoded and decoded three times; the decoded diagram must have the same canonical form under isomorphisms anchored at the inputs and outputs in order (brute force over the free vertices), the same scalar (exactly for sqrt2^p e^{ik pi/4}, 1e-9 otherwise) and the same reference tensor; non-trivial = round trip succeeded on all three decodings".into();
    rep.assume("std::HashMap iteration order inside the encoder / decoder is not owned: the oracle is order-invariant and every case is decoded three times");
    rep.assume("variables and conditional scalar factors are not part of the qgraph format and are not generated");
    let quick = rep.quick();
    // (1) structural family
    let t0 = Instant::now();
    let (s, b, phis): (usize, usize, &[Ph]) = if quick { (3, 1, &PHI4[..]) } else { (3, 2, &PHI6[..]) };
    let structs = structures_upto(s, b, false);
    let stats = sweep(&structs, |st, i, base| {
        for_phases(base, phis, |spec| {
            watch_begin(i as u64, 0);
            st.inc("cases");
            let case = Case { spec: spec.clone(), coords: vec![], hboxes: vec![], phase: None, scalar: if i % 3 == 0 { ScalarSpec::Unit(-1, (i % 8) as i64) } else { ScalarSpec::One }, gap: i % 4 };
            judge::<quizx::vec_graph::Graph>(st, &case, "vec", true);
            judge::<quizx::hash_graph::Graph>(st, &case, "hash", false);
            judge_serde(st, &case);
            st.sample(1, || case.to_json());
            watch_end();
        });
    });
    rep.absorb(&format!("D({},{},Phi{})", s, b, phis.len()), "all labelled diagrams, each built with 0..3 removed vertices in front (non-contiguous ids): both back ends through encode/decode, hash back end through serde", true, None, t0, stats);
    // (2) decorations on a few fixed shapes: phases k/d for all d <= 256, coordinates, H-boxes, scalars
    let t0 = Instant::now();
    let shapes: Vec<DiagSpec> = {
        let all = structures(2, 2, false);
        // pick shapes with both edge kinds and both boundary roles
        all.into_iter().filter(|d| d.edges.iter().any(|e| e.2) && d.edges.iter().any(|e| !e.2) && !d.inputs.is_empty() && !d.outputs.is_empty()).step_by(if quick { 31 } else { 7 }).collect()
    };
    let mut cases: Vec<Case> = vec![];
    let coordset = [0.0, 1.0, 0.5, -1.25, 7.125];
    // arbitrary (non-dyadic, small, large, many-digit) coordinates as well
    let wild = [1.0 / 3.0, 0.0625, -0.00025, 1234.56789, -6296.29633, 1e-7, 2.5e6, 0.1];
    for sh in &shapes {
        for d in 1..=256i64 {
            for k in [1i64, d - 1, -(d / 2).max(1), (d / 3).max(1)] {
                if num::integer::gcd(k.abs(), d) != 1 {
                    continue;
                }
                cases.push(Case { spec: sh.clone(), coords: vec![], hboxes: vec![], phase: Some((0, k, d)), scalar: ScalarSpec::One, gap: (d % 3) as usize });
            }
        }
        for (a, &q) in coordset.iter().enumerate() {
            for (b2, &r) in coordset.iter().enumerate() {
                let coords: Vec<(usize, f64, f64)> = (0..sh.verts.len()).map(|v| (v, if v % 2 == 0 { q } else { coordset[(a + v) % 5] }, if v % 2 == 1 { r } else { coordset[(b2 + v) % 5] })).collect();
                cases.push(Case { spec: sh.clone(), coords, hboxes: vec![], phase: None, scalar: ScalarSpec::One, gap: a % 3 });
            }
        }
        for (a, &q) in wild.iter().enumerate() {
            let coords: Vec<(usize, f64, f64)> = (0..sh.verts.len()).map(|v| (v, wild[(a + v) % wild.len()], if v % 2 == 0 { q } else { -q })).collect();
            cases.push(Case { spec: sh.clone(), coords, hboxes: vec![], phase: None, scalar: ScalarSpec::One, gap: a % 3 });
        }
        for hb in [vec![0usize], vec![1], vec![0, 1]] {
            cases.push(Case { spec: sh.clone(), coords: vec![], hboxes: hb.clone(), phase: None, scalar: ScalarSpec::One, gap: 0 });
            // H-boxes with a label other than the default 1 (0 is the value elided for spiders)
            for (n, d) in [(0i64, 1i64), (1, 4), (-1, 2), (1, 3), (3, 256)] {
                cases.push(Case { spec: sh.clone(), coords: vec![], hboxes: hb.clone(), phase: Some((hb[0], n, d)), scalar: ScalarSpec::One, gap: (d % 3) as usize });
            }
        }
        for sc in scalar_grid(quick) {
            cases.push(Case { spec: sh.clone(), coords: vec![], hboxes: vec![], phase: None, scalar: sc, gap: 1 });
        }
        // a bare wire drawn as ONE boundary vertex that is both an input and an output (the format annotates both roles):
        // appended last, first, and in the middle of the lists
        for pos in 0..3 {
            let mut d = sh.clone();
            let w = d.add(0, (0, 1));
            let at = |l: &Vec<u8>| match pos { 0 => l.len(), 1 => 0, _ => l.len() / 2 };
            let (ai, ao) = (at(&d.inputs), at(&d.outputs));
            d.inputs.insert(ai, w);
            d.outputs.insert(ao, w);
            cases.push(Case { spec: d, coords: vec![], hboxes: vec![], phase: None, scalar: ScalarSpec::One, gap: pos });
        }
    }
    let stats = sweep(&cases, |st, i, case| {
        watch_begin(i as u64, 1);
        st.inc("cases");
        judge::<quizx::vec_graph::Graph>(st, case, "vec", false);
        judge::<quizx::hash_graph::Graph>(st, case, "hash", false);
        judge_serde(st, case);
        watch_end();
    });
    let _ = std::fs::remove_dir_all(scratch_root());
    rep.absorb("decorations", &format!("{} fixed shapes x (phases k/d for every d <= 256, a 5x5 coordinate grid, H-box vertices, {} scalars: sqrt2^p e^(ik pi/4) grid, ring elements from Clifford+T rewriting, floats, zero)", shapes.len(), scalar_grid(quick).len()), true, None, t0, stats);
}

pub fn replay(w: &Value) -> Option<Violation> {
    // cases are re-generated: the witness names the family member through its JSON, which we match on
    let target = w["case"].clone();
    let mut st = Stats::default();
    let spec = DiagSpec::from_json(&target["spec"])?;
    let coords: Vec<(usize, f64, f64)> = target["coords"].as_array()?.iter().map(|c| (c[0].as_u64().unwrap() as usize, c[1].as_f64().unwrap(), c[2].as_f64().unwrap())).collect();
    let hboxes: Vec<usize> = target["hboxes"].as_array()?.iter().map(|x| x.as_u64().unwrap() as usize).collect();
    let phase = target["phase"].as_array().map(|p| (p[0].as_u64().unwrap() as usize, p[1].as_i64().unwrap(), p[2].as_i64().unwrap()));
    let sname = target["scalar"].as_str().unwrap_or("One").to_string();
    let scalar = scalar_grid(false).into_iter().chain((0..8).map(|k| ScalarSpec::Unit(-1, k))).find(|s| format!("{:?}", s) == sname).unwrap_or(ScalarSpec::One);
    let case = Case { spec, coords, hboxes, phase, scalar, gap: target["gap"].as_u64().unwrap_or(0) as usize };
    if w["kind"] == "serde" {
        judge_serde(&mut st, &case);
    } else if w["backend"] == "hash" {
        judge::<quizx::hash_graph::Graph>(&mut st, &case, "hash", true);
    } else {
        judge::<quizx::vec_graph::Graph>(&mut st, &case, "vec", true);
    }
    st.viols.into_values().next().map(|(_, v)| v)
}
