//! C01 — every simplification procedure preserves the linear map, scalar included, and terminates
//! without panicking.
//!
//! E1: every diagram of the families x every pub fn of simplify.rs x both back ends.
//! E2: (i) BFS over "apply simplifier s" from every seed (non-initial states), (ii) the rewrite system:
//! BFS where a transition is one checked primitive rule at one vertex / vertex pair (every rule order).

use crate::checks::c04::{gadget_web_at, gadget_web_count, rules1, rules2, targeted_family};
use crate::conv::*;
use crate::gen::*;
use crate::report::*;
use crate::{sweep, sweep_range};
use quizx::graph::*;
use quizx::simplify::*;
use serde_json::{json, Value};
use std::collections::{BTreeSet, VecDeque};
use std::hash::{Hash, Hasher};
use std::time::Instant;

pub struct Simp<G> {
    pub name: &'static str,
    pub f: fn(&mut G),
}

fn boundary_spiders<G: GraphLike>(g: &G) -> Vec<V> {
    let mut vs: Vec<V> = g
        .vertices()
        .filter(|&v| g.vertex_type(v) != VType::B && g.neighbors(v).any(|n| g.vertex_type(n) == VType::B))
        .collect();
    vs.sort();
    vs
}

pub fn simps<G: GraphLike>() -> Vec<Simp<G>> {
    vec![
        Simp { name: "id_simp", f: |g| { id_simp(g); } },
        Simp { name: "local_comp_simp", f: |g| { local_comp_simp(g); } },
        Simp { name: "spider_simp", f: |g| { spider_simp(g); } },
        Simp { name: "pivot_simp", f: |g| { pivot_simp(g); } },
        Simp { name: "gen_pivot_simp", f: |g| { gen_pivot_simp(g); } },
        Simp { name: "scalar_simp", f: |g| { scalar_simp(g); } },
        Simp { name: "flow_simp", f: |g| { flow_simp(g); } },
        Simp { name: "interior_clifford_simp", f: |g| { interior_clifford_simp(g); } },
        Simp { name: "clifford_simp", f: |g| { clifford_simp(g); } },
        Simp { name: "fuse_gadgets", f: |g| { fuse_gadgets(g); } },
        Simp { name: "full_simp", f: |g| { full_simp(g); } },
        Simp { name: "local_gslc_simp", f: |g| { let vs = boundary_spiders(g); local_gslc_simp(g, vs); } },
        Simp { name: "local_ap_simp", f: |g| { let vs = boundary_spiders(g); local_ap_simp(g, vs); } },
    ]
}

/// concrete (not up-to-isomorphism) 128-bit key of a graph state, including scalar and scalar factors
pub fn graph_key<G: GraphLike>(g: &G) -> (u64, u64) {
    let mut vs: Vec<V> = g.vertices().collect();
    vs.sort();
    let mut es: Vec<(V, V, u8)> = g.edges().map(|(s, t, e)| (s.min(t), s.max(t), e as u8)).collect();
    es.sort();
    let mut h1 = std::collections::hash_map::DefaultHasher::new();
    let mut h2 = std::collections::hash_map::DefaultHasher::new();
    0xabcdu64.hash(&mut h2);
    let mut feed = |x: &dyn Fn(&mut std::collections::hash_map::DefaultHasher)| {
        x(&mut h1);
        x(&mut h2);
    };
    for &v in &vs {
        let d = g.vertex_data(v);
        let r = d.phase.to_rational();
        let vars: Vec<u32> = d.vars.iter().collect();
        let pc = parity_const(&d.vars);
        feed(&|h| (v, d.ty as u8, *r.numer(), *r.denom(), &vars, pc).hash(h));
    }
    feed(&|h| es.hash(h));
    feed(&|h| (g.inputs(), g.outputs()).hash(h));
    feed(&|h| g.scalar().raw_parts().hash(h));
    let mut fs: Vec<String> = g.scalar_factors().map(|(e, s)| format!("{:?}{:?}", e, s.raw_parts())).collect();
    fs.sort();
    feed(&|h| fs.hash(h));
    (h1.finish(), h2.finish())
}

fn witness_simp(seed: &Value, path: &[&str], backend: &str) -> Value {
    json!({"kind": "simp", "seed": seed, "path": path, "backend": backend})
}

/// Apply simplifier sequences breadth-first from graph `g0` up to `depth`; judge every reached state against the root tensor.
pub fn explore_simps<G: GraphLike>(st: &mut Stats, g0: &G, seed: &Value, backend: &'static str, depth: usize, only: Option<&[String]>) {
    let root = eval_graph(g0, None);
    if root.is_bad() {
        st.inc("skipped_unevaluable_input");
        return;
    }
    let ss = simps::<G>();
    let mut seen: BTreeSet<(u64, u64)> = BTreeSet::new();
    seen.insert(graph_key(g0));
    st.inc("states");
    let mut q: VecDeque<(G, Vec<&'static str>)> = VecDeque::new();
    q.push_back((g0.clone(), vec![]));
    while let Some((g, path)) = q.pop_front() {
        if path.len() >= depth {
            continue;
        }
        for s in &ss {
            if let Some(o) = only {
                if o.get(path.len()).map(|x| x.as_str()) != Some(s.name) {
                    continue;
                }
            }
            st.inc("evaluations");
            st.inc("transitions");
            let mut g2 = g.clone();
            let mut p2 = path.clone();
            p2.push(s.name);
            let from = if path.is_empty() { "seed" } else { "derived" };
            if let Err(p) = guarded(|| (s.f)(&mut g2)) {
                st.violation(Violation {
                    sig: format!("{}|panic|{}|{}", s.name, from, last_panic_site()),
                    detail: format!("{} panicked: {}", p2.join(" ; "), p),
                    witness: witness_simp(seed, &p2, backend),
                });
                continue;
            }
            let k = graph_key(&g2);
            if k == graph_key(&g) {
                continue; // nothing changed
            }
            let after = eval_graph(&g2, None);
            if after.is_bad() {
                st.violation(Violation {
                    sig: format!("{}|malformed-result|{}", s.name, from),
                    detail: format!("{} produced a diagram that is not well-formed: {}", p2.join(" ; "), after.show()),
                    witness: witness_simp(seed, &p2, backend),
                });
                continue;
            }
            if !tensors_equal(&root, &after) {
                st.violation(Violation {
                    sig: format!("{}|unsound|{}", s.name, from),
                    detail: format!("{} changed the map: before {} after {}", p2.join(" ; "), root.show(), after.show()),
                    witness: witness_simp(seed, &p2, backend),
                });
                continue;
            }
            st.inc("nontrivial");
            if seen.insert(k) {
                st.inc("states");
                q.push_back((g2, p2));
            }
        }
    }
}

fn witness_rw(seed: &Value, path: &[(String, Vec<V>)], backend: &str) -> Value {
    json!({"kind": "rewrite", "seed": seed, "path": path.iter().map(|(r, a)| json!([r, a])).collect::<Vec<_>>(), "backend": backend})
}

/// The rewrite system: BFS where one transition = one checked primitive rule at one vertex / ordered pair.
pub fn explore_rewrites<G: GraphLike + PartialEq>(st: &mut Stats, g0: &G, seed: &Value, backend: &'static str, depth: usize, cap: usize, only: Option<&[(String, Vec<V>)]>) -> bool {
    let root = eval_graph(g0, None);
    if root.is_bad() {
        st.inc("skipped_unevaluable_input");
        return true;
    }
    let r1 = rules1::<G>();
    let r2 = rules2::<G>();
    let mut seen: BTreeSet<(u64, u64)> = BTreeSet::new();
    seen.insert(graph_key(g0));
    st.inc("states");
    let mut q: VecDeque<(G, Vec<(String, Vec<V>)>)> = VecDeque::new();
    q.push_back((g0.clone(), vec![]));
    let mut complete = true;
    while let Some((g, path)) = q.pop_front() {
        if path.len() >= depth {
            continue;
        }
        let mut ids: Vec<V> = g.vertices().collect();
        ids.sort();
        let mut succ: Vec<(&'static str, Vec<V>, G)> = vec![];
        let mut handle = |st: &mut Stats, name: &'static str, args: Vec<V>, accepted: Result<bool, String>, apply: &dyn Fn(&mut G)| {
            if let Some(o) = only {
                match o.get(path.len()) {
                    Some((n, a)) if n == name && *a == args => {}
                    _ => return,
                }
            }
            st.inc("evaluations");
            let mut p2 = path.clone();
            p2.push((name.to_string(), args.clone()));
            let from = if path.is_empty() { "seed" } else { "derived" };
            match accepted {
                Err(p) => st.violation(Violation {
                    sig: format!("{}|matcher-panic|{}|{}", name, from, last_panic_site()),
                    detail: format!("matcher panicked after {:?}: {}", p2, p),
                    witness: witness_rw(seed, &p2, backend),
                }),
                Ok(false) => {}
                Ok(true) => {
                    st.inc("transitions");
                    let mut g2 = g.clone();
                    if let Err(p) = guarded(|| apply(&mut g2)) {
                        st.violation(Violation {
                            sig: format!("{}|rule-panic|{}|{}", name, from, last_panic_site()),
                            detail: format!("rule panicked after {:?}: {}", p2, p),
                            witness: witness_rw(seed, &p2, backend),
                        });
                        return;
                    }
                    let after = eval_graph(&g2, None);
                    if after.is_bad() || !tensors_equal(&root, &after) {
                        st.violation(Violation {
                            sig: format!("{}|{}|{}", name, if after.is_bad() { "malformed-result" } else { "unsound" }, from),
                            detail: format!("path {:?}: before {} after {}", p2, root.show(), after.show()),
                            witness: witness_rw(seed, &p2, backend),
                        });
                        return;
                    }
                    st.inc("nontrivial");
                    succ.push((name, args, g2));
                }
            }
        };
        for r in &r1 {
            for &v in &ids {
                let acc = guarded(|| (r.check)(&g, v));
                handle(st, r.name, vec![v], acc, &|h: &mut G| (r.unchecked)(h, v));
            }
        }
        for r in &r2 {
            for &v0 in &ids {
                for &v1 in &ids {
                    let acc = guarded(|| (r.check)(&g, v0, v1));
                    handle(st, r.name, vec![v0, v1], acc, &|h: &mut G| (r.unchecked)(h, v0, v1));
                }
            }
        }
        for (name, args, g2) in succ {
            if seen.insert(graph_key(&g2)) {
                if seen.len() > cap {
                    complete = false;
                    continue;
                }
                st.inc("states");
                let mut p2 = path.clone();
                p2.push((name.to_string(), args));
                q.push_back((g2, p2));
            }
        }
    }
    complete
}

fn on_spec(st: &mut Stats, spec: &DiagSpec, depth: usize) {
    st.inc("cases");
    let seed = json!({"diagram": spec.to_json()});
    explore_simps(st, &spec.build::<quizx::vec_graph::Graph>(), &seed, "vec", depth, None);
    explore_simps(st, &spec.build::<quizx::hash_graph::Graph>(), &seed, "hash", depth, None);
    st.sample(2, || seed.clone());
}

fn on_circuit(st: &mut Stats, q: usize, alpha: &[quizx::gate::Gate], d: usize, idx: u64, depth: usize) {
    st.inc("cases");
    let c = circuit_at(q, alpha, d, idx);
    let seed = json!({"circuit": circuit_json(&c)});
    let g: quizx::vec_graph::Graph = c.to_graph();
    explore_simps(st, &g, &seed, "vec", depth, None);
    let g: quizx::hash_graph::Graph = c.to_graph();
    explore_simps(st, &g, &seed, "hash", depth, None);
    st.sample(2, || seed.clone());
}

pub fn run(rep: &mut Report) {
    rep.rule = "state = concrete graph (vertices, data, edges, boundary lists, scalar) reached from a seed; transition = one call of a pub fn of simplify.rs (or one primitive rule in the rewrite-system search) on the real code; non-trivial = the call changed the graph and the result was judged against the root's reference tensor".into();
    rep.assume("seeds are built through the public API; phases from the listed alphabets; exact comparison on k*pi/4, 1e-9 relative otherwise");
    let quick = rep.quick();
    // E1 + E2(i): diagram seeds
    let fams: Vec<(&str, usize, usize, bool, &[Ph], usize)> = if quick {
        vec![("D(2,2,Phi6)x2", 2, 2, false, &PHI6[..], 2), ("D(3,1,Phi4)", 3, 1, false, &PHI4[..], 1)]
    } else {
        vec![("D(2,2,Phi8)x3", 2, 2, false, &PHI8[..], 3), ("D(3,2,Phi6)x1", 3, 2, false, &PHI6[..], 1), ("D(3,1,Phi6)x2/bfirst", 3, 1, true, &PHI6[..], 2), ("D(4,0,Phi4)x1", 4, 0, false, &PHI4[..], 1)]
    };
    for (name, s, b, bfirst, phis, depth) in fams {
        let t0 = Instant::now();
        let structs = if name.starts_with("D(4") { structures(s, b, bfirst) } else { structures_upto(s, b, bfirst) };
        let stats = sweep(&structs, |st, i, base| {
            for_phases(base, phis, |spec| {
                watch_begin(i as u64, 0);
                on_spec(st, spec, depth);
                watch_end();
            });
        });
        rep.absorb(name, &format!("all labelled diagrams <= {} spiders, <= {} boundaries, {} phases; simplifier sequences to depth {}", s, b, phis.len(), depth), true, None, t0, stats);
    }
    // tolerance track
    {
        let t0 = Instant::now();
        let mut phis: Vec<Ph> = PHI4.to_vec();
        phis.extend_from_slice(&PHI_TOL);
        let structs = structures_upto(2, if quick { 1 } else { 2 }, false);
        let stats = sweep(&structs, |st, i, base| {
            for_phases(base, &phis, |spec| {
                watch_begin(i as u64, 2);
                on_spec(st, spec, 1);
                watch_end();
            });
        });
        rep.absorb("tolerance D(2,b,Phi4+tol)", "diagrams with phases outside k*pi/4 (1/3, 1/8, 5/7): compared at 1e-9 relative", true, None, t0, stats);
    }
    // targeted neighbourhoods
    {
        let t0 = Instant::now();
        let fam = targeted_family(if quick { 1 } else { 3 });
        let stats = sweep(&fam, |st, i, spec| {
            watch_begin(i as u64, 1);
            on_spec(st, spec, 1);
            // and with all edges inserted in the opposite order (reversed adjacency lists: a different match order)
            let mut rev = spec.clone();
            rev.edges.reverse();
            on_spec(st, &rev, 1);
            // and with an id gap (two vertices created and removed first: freed slots are re-used by the simplifiers)
            let mut gapped = spec.clone();
            gapped.gap = 2;
            on_spec(st, &gapped, 1);
            watch_end();
        });
        rep.absorb("targeted", "local-complementation stars, pivot double stars, gadget pairs (supports with and without outputs, leaf wired first or last), gadget groups, interacting gadget groups; each also with its edges inserted in the opposite order", true, None, t0, stats);
    }
    // gadget webs
    for (gn, sn) in if quick { vec![(3usize, 2usize), (4, 2)] } else { vec![(3, 3), (4, 3), (5, 1), (5, 2)] } {
        let t0 = Instant::now();
        let n = gadget_web_count(gn, sn);
        let stats = sweep_range(n, |st, idx| {
            watch_begin(idx, 5);
            let spec = gadget_web_at(gn, sn, idx);
            on_spec(st, &spec, 1);
            watch_end();
        });
        rep.absorb(&format!("gadget webs W({},{})", gn, sn), &format!("{} phase gadgets and {} plain support spiders with outputs: every set of hub-hub edges x every attachment of hubs to supports x 4 leaf-phase / hub-phase variants (equal, nested, disjoint and mutually supporting gadget neighbourhoods)", gn, sn), true, None, t0, stats);
    }
    // circuit-derived seeds
    let cfams: Vec<(&str, usize, Vec<quizx::gate::Gate>, usize, usize)> = if quick {
        vec![("K(2,3,A_ct)", 2, alpha_ct(2), 3, 1), ("K(3,2,A_full)", 3, alpha_full(3), 2, 1), ("K(3,3,A_pp)", 3, alpha_pp(3), 3, 1), ("K(2,2,A_tol)", 2, alpha_tol(2), 2, 1)]
    } else {
        vec![("K(2,4,A_ct)", 2, alpha_ct(2), 4, 1), ("K(3,3,A_ct)", 3, alpha_ct(3), 3, 2), ("K(3,2,A_full)x2", 3, alpha_full(3), 2, 2), ("K(3,5,A_cnot)", 3, alpha_cnot(3), 5, 1), ("K(2,3,A_tol)", 2, alpha_tol(2), 3, 1), ("K(3,4,A_pp)", 3, alpha_pp(3), 4, 1), ("K(4,3,A_pp)", 4, alpha_pp(4), 3, 1)]
    };
    for (name, q, alpha, d, depth) in cfams {
        let t0 = Instant::now();
        let n = circuit_count(alpha.len(), d);
        let stats = sweep_range(n, |st, idx| {
            watch_begin(idx, 3);
            on_circuit(st, q, &alpha, d, idx, depth);
            watch_end();
        });
        rep.absorb(name, &format!("to_graph of every circuit with <= {} gates over {} gate instances on {} qubits; simplifier sequences to depth {}", d, alpha.len(), q, depth), true, None, t0, stats);
    }
    // E2(ii): the rewrite system
    {
        let t0 = Instant::now();
        let (s, b, phis, depth): (usize, usize, &[Ph], usize) = if quick { (2, 1, &PHI6[..], 3) } else { (3, 1, &PHI6[..], 4) };
        let structs = structures_upto(s, b, false);
        let capped = std::sync::atomic::AtomicU64::new(0);
        let stats = sweep(&structs, |st, i, base| {
            for_phases(base, phis, |spec| {
                watch_begin(i as u64, 4);
                st.inc("cases");
                let seed = json!({"diagram": spec.to_json()});
                let c1 = explore_rewrites(st, &spec.build::<quizx::vec_graph::Graph>(), &seed, "vec", depth, 20000, None);
                let c2 = explore_rewrites(st, &spec.build::<quizx::hash_graph::Graph>(), &seed, "hash", depth, 20000, None);
                if !(c1 && c2) {
                    capped.fetch_add(1, std::sync::atomic::Ordering::Relaxed);
                }
                watch_end();
            });
        });
        let cap = capped.load(std::sync::atomic::Ordering::Relaxed);
        rep.absorb(
            "rewrite-system",
            &format!("BFS to depth {} over single checked primitive rules (all rules, all vertices / ordered pairs) from every diagram of D({},{},Phi6): every rule order the fix-point loops could take", depth, s, b),
            cap == 0,
            if cap > 0 { Some(format!("{} seeds hit the 20000-state cap", cap)) } else { None },
            t0,
            stats,
        );
    }
}

pub fn replay(w: &Value) -> Option<Violation> {
    let mut st = Stats::default();
    let seed = &w["seed"];
    let hash = w["backend"] == "hash";
    if w["kind"] == "simp" {
        let path: Vec<String> = w["path"].as_array()?.iter().map(|x| x.as_str().unwrap().to_string()).collect();
        fn go<G: GraphLike>(st: &mut Stats, g: &G, seed: &Value, b: &'static str, path: &[String]) {
            explore_simps(st, g, seed, b, path.len(), Some(path));
        }
        if let Some(spec) = DiagSpec::from_json(&seed["diagram"]) {
            if hash {
                go(&mut st, &spec.build::<quizx::hash_graph::Graph>(), seed, "hash", &path)
            } else {
                go(&mut st, &spec.build::<quizx::vec_graph::Graph>(), seed, "vec", &path)
            }
        } else if let Some(c) = circuit_from_json(&seed["circuit"]) {
            if hash {
                go(&mut st, &c.to_graph::<quizx::hash_graph::Graph>(), seed, "hash", &path)
            } else {
                go(&mut st, &c.to_graph::<quizx::vec_graph::Graph>(), seed, "vec", &path)
            }
        }
    } else {
        let path: Vec<(String, Vec<V>)> = w["path"].as_array()?.iter().map(|x| (x[0].as_str().unwrap().to_string(), x[1].as_array().unwrap().iter().map(|y| y.as_u64().unwrap() as usize).collect())).collect();
        let spec = DiagSpec::from_json(&seed["diagram"])?;
        if hash {
            explore_rewrites(&mut st, &spec.build::<quizx::hash_graph::Graph>(), seed, "hash", path.len(), 1 << 20, Some(&path));
        } else {
            explore_rewrites(&mut st, &spec.build::<quizx::vec_graph::Graph>(), seed, "vec", path.len(), 1 << 20, Some(&path));
        }
    }
    println!("replayed {} transition(s)", st.get("evaluations"));
    st.viols.into_values().next().map(|(_, v)| v)
}
