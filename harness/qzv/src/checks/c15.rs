//! C15 — circuit adjoint inverts; basic-gate expansion and concatenation keep meaning; statistics partition.

use crate::conv::*;
use crate::gen::*;
use crate::report::*;
use crate::sweep_range;
use quizx::circuit::Circuit;
use quizx::gate::*;
use qzv_ref::diagram::compose;
use qzv_ref::ring::*;
use serde_json::{json, Value};
use std::time::Instant;

fn sim(c: &Circuit) -> Tensor {
    sim_circuit(&to_rcircuit(c, &[]).unwrap()).0
}

fn identity(q: usize) -> Tensor {
    let n = 1usize << q;
    Tensor::Exact((0..n * n).map(|k| if k / n == k % n { Zw::one() } else { Zw::zero() }).collect())
}

/// reference classification of one gate: (arity class 1/2/3+ or None for a zero-qubit gate,
/// Clifford-ness where it is unambiguous: XCX and parity-phase gates are left open, the property only
/// asks for a consistent partition there)
fn classify(g: &Gate) -> (Option<usize>, Option<bool>) {
    let ar = match g.qs.len() {
        0 => None,
        1 => Some(1),
        2 => Some(2),
        _ => Some(3),
    };
    let r = g.phase.to_rational();
    let cliff = match g.t {
        NOT | Z | S | Sdg | CNOT | CZ | SWAP | HAD => Some(true),
        ZPhase | XPhase => Some(2 % r.denom() == 0),
        T | Tdg | CCZ | TOFF => Some(false),
        _ => None,
    };
    (ar, cliff)
}

pub fn judge(st: &mut Stats, c: &Circuit, second: Option<&Circuit>) {
    let q = c.num_qubits();
    let t = sim(c);
    let wit = |what: &str| json!({"kind": "circuit", "circuit": circuit_json(c), "second": second.map(circuit_json), "what": what});
    let kinds = |c: &Circuit| {
        let mut k: Vec<&str> = c.gates.iter().map(|g| g.t.qasm_name()).collect();
        k.sort();
        k.dedup();
        k.join("+")
    };
    // adjoint
    st.inc("evaluations");
    match guarded(|| c.clone() + c.to_adjoint()) {
        Err(p) => st.violation(Violation { sig: format!("adjoint|panic|{}", last_panic_site()), detail: p, witness: wit("adjoint") }),
        Ok(cc) => {
            let got = sim(&cc);
            if !tensors_equal(&got, &identity(q)) {
                st.violation(Violation { sig: format!("adjoint|not-inverse|{}", kinds(c)), detail: format!("c + c.to_adjoint() = {}", got.show()), witness: wit("adjoint") });
            } else {
                st.inc("nontrivial");
            }
        }
    }
    // basic gates
    st.inc("evaluations");
    match guarded(|| c.to_basic_gates()) {
        Err(p) => st.violation(Violation { sig: format!("to_basic_gates|panic|{}", last_panic_site()), detail: p, witness: wit("basic") }),
        Ok(b) => {
            let promised: usize = c.gates.iter().map(|g| g.num_basic_gates()).sum();
            let allbasic = b.gates.iter().all(|g| g.qs.len() <= 2 && !matches!(g.t, TOFF | CCZ | ParityPhase));
            if b.num_gates() != promised {
                st.violation(Violation { sig: format!("to_basic_gates|count|{}", kinds(c)), detail: format!("{} gates, num_basic_gates promised {}", b.num_gates(), promised), witness: wit("basic") });
            } else if !allbasic {
                st.violation(Violation { sig: format!("to_basic_gates|non-basic|{}", kinds(c)), detail: b.to_qasm(), witness: wit("basic") });
            } else if b.num_qubits() != q || !tensors_equal(&sim(&b), &t) {
                st.violation(Violation { sig: format!("to_basic_gates|wrong-map|{}", kinds(c)), detail: format!("expansion {} original {}", sim(&b).show(), t.show()), witness: wit("basic") });
            } else {
                st.inc("nontrivial");
            }
        }
    }
    // reverse twice
    st.inc("evaluations");
    let mut r = c.clone();
    r.reverse();
    let rev_ok = r.gates.iter().rev().eq(c.gates.iter());
    r.reverse();
    if !rev_ok || r != *c {
        st.violation(Violation { sig: "reverse|wrong".into(), detail: "reverse does not reverse, or reverse twice does not restore the circuit".into(), witness: wit("reverse") });
    }
    // construction histories: the same gate list built by mixing push_back and push_front (the gate deque is then
    // wrapped in its ring buffer, as for circuits returned by the extractor); every in-place operation must give what
    // it gives on the plainly built circuit
    {
        let gs: Vec<Gate> = c.gates.iter().cloned().collect();
        let n = gs.len();
        let mut splits = vec![0usize, n / 2, n];
        if n > 1 {
            splits.push(1);
            splits.push(n - 1);
        }
        splits.sort();
        splits.dedup();
        for k in splits {
            let build = || {
                let mut w = Circuit::new(q);
                for g in &gs[k..] {
                    w.push_back(g.clone());
                }
                for g in gs[..k].iter().rev() {
                    w.push_front(g.clone());
                }
                w
            };
            st.inc("evaluations");
            let r = guarded(|| {
                let w0 = build();
                let mut wr = build();
                wr.reverse();
                let mut wa = build();
                wa.adjoint();
                let wta = build().to_adjoint();
                let wb = build().to_basic_gates();
                let ws = build().stats().into_array();
                (w0, wr, wa, wta, wb, ws)
            });
            match r {
                Err(p) => st.violation(Violation { sig: format!("history|panic|{}", last_panic_site()), detail: p, witness: wit("history") }),
                Ok((w0, wr, wa, wta, wb, ws)) => {
                    let want_adj: Vec<Gate> = gs.iter().rev().map(|g| { let mut h = g.clone(); h.adjoint(); h }).collect();
                    let bad = if w0 != *c {
                        Some("push_front/push_back do not build the same circuit")
                    } else if !wr.gates.iter().eq(gs.iter().rev()) {
                        Some("in-place reverse")
                    } else if !wa.gates.iter().eq(want_adj.iter()) {
                        Some("in-place adjoint")
                    } else if wta != c.to_adjoint() {
                        Some("to_adjoint")
                    } else if wb != c.to_basic_gates() {
                        Some("to_basic_gates")
                    } else if ws != c.stats().into_array() {
                        Some("stats")
                    } else {
                        None
                    };
                    match bad {
                        Some(b) => st.violation(Violation { sig: format!("history|{}", b.replace(' ', "-")), detail: format!("gate list built with the first {} gates pushed to the front afterwards: {} differs from the plainly built circuit", k, b), witness: wit("history") }),
                        None => st.inc("nontrivial"),
                    }
                }
            }
        }
    }
    // statistics: a partition, additive over gates, and right on every unambiguous gate
    st.inc("evaluations");
    let s = c.stats();
    let mut sum = [0usize; 5];
    let mut bad: Option<String> = None;
    for g in &c.gates {
        let mut one = Circuit::new(q);
        one.push(g.clone());
        let s1 = one.stats();
        let a1 = [s1.oneq, s1.twoq, s1.moreq, s1.cliff, s1.non_cliff];
        for k in 0..5 {
            sum[k] += a1[k];
        }
        let (ar, cl) = classify(g);
        if s1.oneq + s1.twoq + s1.moreq != 1 || s1.cliff + s1.non_cliff != 1 || s1.total != 1 {
            bad = Some(format!("{}|single-gate-not-partitioned", g.t.qasm_name()));
        } else if let Some(ar) = ar {
            if a1[ar - 1] != 1 {
                bad = Some(format!("{}|arity-class", g.t.qasm_name()));
            }
        }
        if let Some(cl) = cl {
            if (s1.cliff == 1) != cl {
                bad = Some(format!("{}|clifford-class", g.t.qasm_name()));
            }
        }
    }
    let got = [s.oneq, s.twoq, s.moreq, s.cliff, s.non_cliff];
    if s.qubits != q || s.total != c.num_gates() || s.oneq + s.twoq + s.moreq != s.total || s.cliff + s.non_cliff != s.total {
        st.violation(Violation { sig: "stats|not-a-partition".into(), detail: format!("{:?}", s), witness: wit("stats") });
    } else if got != sum {
        st.violation(Violation { sig: "stats|not-additive".into(), detail: format!("whole circuit {:?}, sum over single gates {:?}", got, sum), witness: wit("stats") });
    } else if let Some(b) = bad {
        st.violation(Violation { sig: format!("stats|{}", b), detail: format!("{:?}", s), witness: wit("stats") });
    }
    // concatenation
    if let Some(d) = second {
        st.inc("evaluations");
        let td = sim(d);
        match (&t, &td) {
            (Tensor::Exact(a), Tensor::Exact(b)) => {
                let want = Tensor::Exact(compose(a, b, q, q, q));
                let variants: Vec<(&str, Circuit)> = vec![("owned+owned", c.clone() + d.clone()), ("owned+ref", c.clone() + d), ("ref+owned", c + d.clone()), ("ref+ref", c + d), ("add_assign", {
                    let mut x = c.clone();
                    x += d;
                    x
                })];
                for (n, cd) in variants {
                    if cd.num_qubits() != q || !tensors_equal(&sim(&cd), &want) {
                        st.violation(Violation { sig: format!("concat|wrong-map|{}", n), detail: "c1 + c2 does not denote sim(c2) . sim(c1)".into(), witness: wit("concat") });
                    }
                }
                st.inc("nontrivial");
            }
            _ => {}
        }
    }
}

pub fn run(rep: &mut Report) {
    rep.rule = "case = circuit (or ordered circuit pair for concatenation); unitaries computed by the reference gate-matrix simulator; non-trivial = operation executed and agreed exactly".into();
    rep.assume("statistics are compared with a reference classifier: Clifford = {x,z,s,sdg,h,cx,cz,swap,xcx} and rz/rx/pp with phase a multiple of 1/2");
    let quick = rep.quick();
    // an alphabet with Toffoli / CCZ on every argument order and parity phases of arity 1..4
    let rich = |q: usize| {
        let mut a = alpha_full(q);
        if q >= 3 {
            for p in [[0usize, 1, 2], [0, 2, 1], [1, 0, 2], [1, 2, 0], [2, 0, 1], [2, 1, 0]] {
                a.push(Gate::new(CCZ, p.to_vec()));
                a.push(Gate::new(TOFF, p.to_vec()));
            }
            a.push(gp(ParityPhase, vec![2, 0, 1], (1, 2)));
        }
        if q >= 4 {
            a.push(gp(ParityPhase, vec![0, 1, 2, 3], (1, 4)));
            a.push(gp(ParityPhase, vec![3, 1, 0, 2], (3, 4)));
        }
        a.push(gp(ParityPhase, vec![], (1, 4)));
        a.push(gp(ZPhase, vec![0], (1, 3)));
        a.push(gp(XPhase, vec![0], (-2, 3)));
        a
    };
    let fams: Vec<(&str, usize, Vec<Gate>, usize)> = if quick { vec![("K(2,3,A_full)", 2, alpha_full(2), 3), ("K(3,2,rich)", 3, rich(3), 2), ("K(4,1,rich)", 4, rich(4), 1), ("K(2,4,A_full)", 2, alpha_full(2), 4)] } else { vec![("K(2,4,A_full)", 2, alpha_full(2), 4), ("K(3,3,rich)", 3, rich(3), 3), ("K(4,2,rich)", 4, rich(4), 2)] };
    for (name, q, alpha, d) in fams {
        let t0 = Instant::now();
        let n = circuit_count(alpha.len(), d);
        let stats = sweep_range(n, |st, idx| {
            watch_begin(idx, 0);
            st.inc("cases");
            let c = circuit_at(q, &alpha, d, idx);
            // partner for concatenation: the circuit at a fixed stride away
            let d2 = circuit_at(q, &alpha, d, (idx * 7 + 3) % n);
            judge(st, &c, Some(&d2));
            st.sample(1, || json!({"qasm": c.to_qasm()}));
            watch_end();
        });
        rep.absorb(name, &format!("every circuit with <= {} gates over {} gate instances on {} qubits (Toffoli/CCZ on every argument order, parity phases of arity 0..4, phases k/4 and thirds)", d, alpha.len(), q), true, None, t0, stats);
    }
}

pub fn replay(w: &Value) -> Option<Violation> {
    let c = circuit_from_json(&w["circuit"])?;
    let d = circuit_from_json(&w["second"]);
    let mut st = Stats::default();
    judge(&mut st, &c, d.as_ref());
    let what = w["what"].as_str().unwrap_or("");
    let pre = match what {
        "adjoint" => "adjoint",
        "basic" => "to_basic_gates",
        "reverse" => "reverse",
        "stats" => "stats",
        _ => "concat",
    };
    st.viols.retain(|k, _| k.starts_with(pre));
    st.viols.into_values().next().map(|(_, v)| v)
}
