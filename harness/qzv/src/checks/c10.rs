//! C10 — rewriting diagrams with boolean parameters is sound under every assignment; circuits with measurements
//! translate, for each outcome assignment, to the correspondingly projected map.

use crate::checks::c01::simps;
use crate::checks::c04::{all_rules_on, targeted_family};
use crate::conv::*;
use crate::gen::*;
use crate::report::*;
use crate::{sweep, sweep_range};
use quizx::circuit::Circuit;
use quizx::gate::*;
use quizx::graph::*;
use quizx::params::Parity;
use serde_json::{json, Value};
use std::time::Instant;

pub const NVARS: u32 = 3;
/// parities over variables {0,1,2} without constant term (variable 0 included)
pub const MASKS6: [u8; 6] = [0, 1, 2, 3, 4, 6];
pub const MASKS4: [u8; 4] = [0, 1, 2, 3];

fn rules_on_both(st: &mut Stats, spec: &DiagSpec) {
    st.inc("cases");
    let a = all_rules_on::<quizx::vec_graph::Graph>(st, spec, "vec", Some(NVARS), None);
    let b = all_rules_on::<quizx::hash_graph::Graph>(st, spec, "hash", Some(NVARS), None);
    if a != b {
        st.violation(Violation { sig: "backend-divergence|matcher verdicts differ".into(), detail: "matcher verdicts differ between back ends".into(), witness: json!({"kind": "divergence", "spec": spec.to_json()}) });
    }
}

fn var_class(spec: &DiagSpec) -> String {
    let uses0 = spec.verts.iter().any(|v| v.vars & 1 == 1);
    let multi = spec.verts.iter().filter(|v| v.vars != 0).count();
    format!("var0={}|spiders-with-vars={}", uses0, multi.min(2))
}

pub fn simps_on<G: GraphLike>(st: &mut Stats, spec: &DiagSpec, backend: &'static str, only: Option<&str>) {
    let g: G = spec.build();
    let before: Vec<Tensor> = (0..(1u32 << NVARS)).map(|a| eval_graph(&g, Some(a))).collect();
    if before.iter().any(|t| t.is_bad()) {
        st.inc("skipped_unevaluable_input");
        return;
    }
    for s in simps::<G>() {
        if let Some(o) = only {
            if o != s.name {
                continue;
            }
        }
        st.inc("evaluations");
        let mut g2 = g.clone();
        let wit = || json!({"kind": "simp", "spec": spec.to_json(), "simp": s.name, "backend": backend, "nvars": NVARS});
        if let Err(p) = guarded(|| (s.f)(&mut g2)) {
            st.violation(Violation { sig: format!("{}|panic|{}", s.name, p.rsplit(" @ ").next().unwrap_or("")), detail: p, witness: wit() });
            continue;
        }
        let mut ok = true;
        for a in 0..(1u32 << NVARS) {
            let after = eval_graph(&g2, Some(a));
            if after.is_bad() || !tensors_equal(&before[a as usize], &after) {
                st.violation(Violation {
                    sig: format!("{}|{}|{}", s.name, if after.is_bad() { "malformed-result" } else { "unsound-under-assignment" }, var_class(spec)),
                    detail: format!("assignment {:03b} (bit i = variable i): before {} after {}", a, before[a as usize].show(), after.show()),
                    witness: wit(),
                });
                ok = false;
                break;
            }
        }
        if ok && spec.verts.iter().any(|v| v.vars != 0) {
            st.inc("nontrivial");
        }
    }
}

// ---------------------------------------------------------------------------------------------
// circuits with measurements
// ---------------------------------------------------------------------------------------------

fn alpha_meas(q: usize) -> Vec<Gate> {
    let mut a = vec![];
    for i in 0..q {
        a.push(g1(HAD, i));
        a.push(g1(T, i));
        a.push(g1(NOT, i));
        a.push(g1(S, i));
        a.push(Gate::new(Measure, vec![i]));
        a.push(Gate::new(MeasureReset, vec![i]));
        for j in 0..q {
            if i != j {
                a.push(Gate::new(CNOT, vec![i, j]));
            }
        }
    }
    a.push(Gate::new(CZ, vec![0, q - 1]));
    // relabelling gates before a measurement: the qubit -> output position table is no longer monotone
    a.push(Gate::new(SWAP, vec![0, q - 1]));
    if q >= 3 {
        a.push(Gate::new(SWAP, vec![1, 2]));
        a.push(Gate::new(PostSelect, vec![1]));
    }
    a
}

pub fn judge_meas_circuit<G: GraphLike>(st: &mut Stats, c: &Circuit, explicit_mode: u8, backend: &'static str) {
    let nm = c.gates.iter().filter(|g| g.t == Measure || g.t == MeasureReset).count();
    if nm == 0 || nm > 3 {
        return;
    }
    let explicit_vars = explicit_mode != 0;
    // mode 1: the k-th measurement is told to use variable (nm - 1 - k), i.e. reversed numbering;
    // mode 2: only every other measurement is named (variable 1, then 0), the others get fresh variables
    let c = if explicit_mode != 0 {
        let mut d = Circuit::new(c.num_qubits());
        let mut k = 0;
        for g in &c.gates {
            let mut g = g.clone();
            if g.t == Measure || g.t == MeasureReset {
                if explicit_mode == 1 {
                    g.vars = Parity::single((nm - 1 - k) as u32);
                } else if k % 2 == 0 {
                    g.vars = Parity::single(if k == 0 { 1 } else { 0 });
                }
                k += 1;
            }
            d.push(g);
        }
        d
    } else {
        c.clone()
    };
    // documented numbering: unnamed measurements get fresh variables from (largest named + 1) upwards, in circuit order
    let named_max: Option<u32> = c.gates.iter().filter_map(|g| g.vars.iter().max()).max();
    let mut fresh = named_max.map_or(0, |m| m + 1) as usize;
    let mvars: Vec<usize> = c
        .gates
        .iter()
        .filter(|g| g.t == Measure || g.t == MeasureReset)
        .map(|g| match g.vars.iter().next() {
            Some(v) => v as usize,
            None => {
                fresh += 1;
                fresh - 1
            }
        })
        .collect();
    let nvars_total = mvars.iter().max().map_or(0, |m| m + 1);
    st.inc("cases");
    for (simp, mname) in [(false, "plain"), (true, "simplify")] {
        st.inc("evaluations");
        let wit = || json!({"kind": "circuit", "circuit": circuit_json(&c), "mode": mname, "backend": backend, "explicit_mode": explicit_mode});
        let g = match guarded(|| c.to_graph_with_options::<G>(simp, false)) {
            Err(p) => {
                st.violation(Violation { sig: format!("to_graph|{}|panic|{}", mname, p.rsplit(" @ ").next().unwrap_or("")), detail: p, witness: wit() });
                continue;
            }
            Ok(g) => g,
        };
        let mut ok = true;
        let mut in_domain = false;
        for a in 0..(1u32 << nvars_total) {
            // outcome of the k-th measurement = value of its variable
            let outcomes: Vec<u8> = (0..nm).map(|k| ((a >> mvars[k]) & 1) as u8).collect();
            let Some(rc) = to_rcircuit(&c, &outcomes) else { break };
            let (want, ni, no) = sim_circuit(&rc);
            if want.is_bad() {
                break; // a gate follows a measurement on the same qubit: documented as ignored, out of domain here
            }
            in_domain = true;
            if g.inputs().len() != ni || g.outputs().len() != no {
                st.violation(Violation { sig: format!("to_graph|{}|arity", mname), detail: format!("{} in / {} out, expected {} / {}", g.inputs().len(), g.outputs().len(), ni, no), witness: wit() });
                ok = false;
                break;
            }
            let got = eval_graph(&g, Some(a));
            if got.is_bad() || !tensors_equal(&got, &want) {
                let kinds = if c.gates.iter().any(|g| g.t == MeasureReset) { "measure-reset" } else { "measure" };
                st.violation(Violation { sig: format!("to_graph|{}|wrong-projected-map|{}|explicit_vars={}", mname, kinds, explicit_vars), detail: format!("outcomes {:?}: diagram {} circuit {}", outcomes, got.show(), want.show()), witness: wit() });
                ok = false;
                break;
            }
        }
        if !in_domain {
            st.inc("out_of_domain");
        } else if ok {
            st.inc("nontrivial");
        }
    }
}

pub fn run(rep: &mut Report) {
    rep.rule = "case = (diagram with variable parities, rule + arguments | simplifier, back end) or (circuit with measurements, mode, back end); for ALL 2^n assignments the instantiated result (pi added on odd parity, scalar factors multiplied in where every parity of their condition holds) must denote the same map as the instantiated original / the circuit projected on that outcome; non-trivial = variables present and all assignments agreed".into();
    rep.assume("instantiation is done by the harness from vars(v) and scalar_factors(); parities carry no constant term on input (as produced by measurements); 3 variables {0,1,2}");
    let quick = rep.quick();
    // (a) rules
    let fams: Vec<(&str, usize, usize, &[Ph], &[u8])> = if quick { vec![("rules D(2,1,Phi6) x masks6", 2, 1, &PHI6[..], &MASKS6[..]), ("rules D(3,0,{0,1,1/2}) x masks4", 3, 0, &[(0, 1), (1, 1), (1, 2)][..], &MASKS4[..])] } else { vec![("rules D(2,2,Phi6) x masks6", 2, 2, &PHI6[..], &MASKS6[..]), ("rules D(3,1,{0,1,1/2,1/4}) x masks4", 3, 1, &PHI4[..], &MASKS4[..])] };
    // tolerance track: phases outside k*pi/4 next to variable parities (the conditional scalar factors then multiply float
    // scalars); same judge, whose comparison is relative (1e-9) as soon as one side is approximate
    let mut fams = fams;
    fams.push(("rules tolerance D(2,1,{0,1,1/3,5/7}) x masks4", 2, 1, &[(0, 1), (1, 1), (1, 3), (5, 7)][..], &MASKS4[..]));
    for (name, s, b, phis, masks) in &fams {
        let t0 = Instant::now();
        let structs = structures_upto(*s, *b, false);
        let stats = sweep(&structs, |st, i, base| {
            for_phases(base, phis, |sp| {
                for_vars(sp, masks, |spec| {
                    watch_begin(i as u64, 0);
                    rules_on_both(st, spec);
                    watch_end();
                });
            });
        });
        rep.absorb(name, "every primitive rule x every argument tuple on every diagram whose spiders carry any of the listed parities; accepted applications judged under all 8 assignments", true, None, t0, stats);
    }
    // targeted neighbourhoods with variables on the acted-on vertices (first two spiders)
    {
        let t0 = Instant::now();
        // thorough: the small neighbourhoods with all 16 parity pairs, then the large ones (k = 2, ~80 000 diagrams)
        // with three pairs (the full product did not finish in 90 minutes)
        let small = targeted_family(1).len();
        let fam = if quick { targeted_family(1) } else { let mut f = targeted_family(1); f.extend(targeted_family(2)); f };
        let stats = sweep(&fam, |st, i, base| {
            for m0 in MASKS4 {
                for m1 in MASKS4 {
                    // quick: five pairs in which the two acted-on spiders carry different or overlapping parities
                    if quick && !matches!((m0, m1), (1, 0) | (0, 1) | (1, 1) | (1, 2) | (3, 1)) {
                        continue;
                    }
                    if i >= small && !matches!((m0, m1), (1, 2) | (3, 1) | (1, 1)) {
                        continue;
                    }
                    let mut spec = base.clone();
                    let sp = spec.spiders();
                    if sp.len() >= 2 {
                        spec.verts[sp[0]].vars = m0;
                        spec.verts[sp[1]].vars = m1;
                        if sp.len() >= 3 {
                            spec.verts[sp[2]].vars = 4;
                        }
                    }
                    watch_begin(i as u64, 1);
                    // quick: on the large neighbourhoods (interacting gadget groups, > 8 vertices) only the simplifiers
                    if !quick || spec.verts.len() <= 8 {
                        rules_on_both(st, &spec);
                    }
                    simps_on::<quizx::vec_graph::Graph>(st, &spec, "vec", None);
                    watch_end();
                }
            }
        });
        rep.absorb("targeted with variables", "stars, double stars and gadget groups with parities on the acted-on vertices: rules and simplifiers", true, None, t0, stats);
    }
    // gadget groups with parities on every leaf (group fusion must carry all of them)
    {
        let t0 = Instant::now();
        let mut fam: Vec<DiagSpec> = vec![];
        for m in 1..=2usize {
            for kk in 2..=4usize {
                let nmask = 4usize.pow(kk as u32);
                for mi in 0..nmask {
                    let mut d = DiagSpec::empty();
                    let ns: Vec<u8> = (0..m).map(|i| d.add(1, [(1, 4), (1, 2)][i % 2])).collect();
                    let mut mm = mi;
                    for j in 0..kk {
                        let h = d.add(1, (0, 1));
                        let l = d.add(1, [(1, 4), (3, 4), (1, 2), (-1, 4)][j % 4]);
                        d.verts[l as usize].vars = [0u8, 1, 2, 4][mm % 4];
                        mm /= 4;
                        d.edges.push((h, l, true));
                        for &x in &ns {
                            d.edges.push((h, x, true));
                        }
                    }
                    for &x in &ns {
                        let b = d.add(0, (0, 1));
                        d.edges.push((x, b, false));
                        d.outputs.push(b);
                    }
                    fam.push(d);
                }
            }
        }
        let stats = sweep(&fam, |st, i, spec| {
            watch_begin(i as u64, 4);
            st.inc("cases");
            simps_on::<quizx::vec_graph::Graph>(st, spec, "vec", None);
            simps_on::<quizx::hash_graph::Graph>(st, spec, "hash", None);
            rules_on_both(st, spec);
            watch_end();
        });
        rep.absorb("gadget groups with leaf variables", "k = 2..4 phase gadgets on a shared support, every assignment of parities {0, b0, b1, b2} to the leaves: simplifiers and rules under all assignments", true, None, t0, stats);
    }
    // (b) simplifiers
    for (name, s, b, phis, masks) in &fams {
        let t0 = Instant::now();
        let structs = structures_upto(*s, *b, false);
        let stats = sweep(&structs, |st, i, base| {
            for_phases(base, phis, |sp| {
                for_vars(sp, masks, |spec| {
                    watch_begin(i as u64, 2);
                    st.inc("cases");
                    simps_on::<quizx::vec_graph::Graph>(st, spec, "vec", None);
                    simps_on::<quizx::hash_graph::Graph>(st, spec, "hash", None);
                    st.sample(1, || spec.to_json());
                    watch_end();
                });
            });
        });
        rep.absorb(&name.replace("rules", "simplifiers"), "every pub fn of simplify.rs on the same diagrams, all 8 assignments, both back ends", true, None, t0, stats);
    }
    // (c) circuits with measurements
    for (q, d) in if quick { vec![(2usize, 3usize), (3, 2)] } else { vec![(2, 4), (3, 3)] } {
        let t0 = Instant::now();
        let alpha = alpha_meas(q);
        let n = circuit_count(alpha.len(), d);
        let stats = sweep_range(n, |st, idx| {
            watch_begin(idx, 3);
            let c = circuit_at(q, &alpha, d, idx);
            for ev in 0..3u8 {
                judge_meas_circuit::<quizx::vec_graph::Graph>(st, &c, ev, "vec");
                judge_meas_circuit::<quizx::hash_graph::Graph>(st, &c, ev, "hash");
            }
            watch_end();
        });
        rep.absorb(&format!("measurement circuits K({},{},A_meas)", q, d), "every gate sequence with measure / measure-reset gates (fresh, explicit and mixed outcome variables), plain and simplify modes: for every outcome assignment the instantiated diagram vs the circuit projected on that outcome", true, None, t0, stats);
    }
}

pub fn replay(w: &Value) -> Option<Violation> {
    let mut st = Stats::default();
    match w["kind"].as_str()? {
        "rule" | "divergence" => {
            let mut w2 = w.clone();
            w2["nvars"] = json!(NVARS);
            return crate::checks::c04::replay(&w2);
        }
        "simp" => {
            let spec = DiagSpec::from_json(&w["spec"])?;
            if w["backend"] == "hash" {
                simps_on::<quizx::hash_graph::Graph>(&mut st, &spec, "hash", w["simp"].as_str());
            } else {
                simps_on::<quizx::vec_graph::Graph>(&mut st, &spec, "vec", w["simp"].as_str());
            }
        }
        _ => {
            // the recorded circuit already carries its explicit variables
            let c = circuit_from_json(&w["circuit"])?;
            judge_meas_circuit::<quizx::vec_graph::Graph>(&mut st, &c, 0, "vec");
            judge_meas_circuit::<quizx::hash_graph::Graph>(&mut st, &c, 0, "hash");
        }
    }
    st.viols.into_values().next().map(|(_, v)| v)
}
