//! C11 — composition, tensor product, adjoint, basis plugging and the identity test match linear algebra.

use crate::conv::*;
use crate::gen::*;
use crate::report::*;
use crate::sweep;
use quizx::graph::*;
use qzv_ref::diagram::{compose, dagger, kron};
use qzv_ref::ring::*;
use serde_json::{json, Value};
use std::time::Instant;

fn exact(t: &Tensor) -> Option<&Vec<Zw>> {
    match t {
        Tensor::Exact(v) => Some(v),
        _ => None,
    }
}

const BASIS: [BasisElem; 5] = [BasisElem::Z0, BasisElem::Z1, BasisElem::X0, BasisElem::X1, BasisElem::SKIP];

fn basis_vec(b: BasisElem) -> [Zw; 2] {
    let h = Zw::sqrt2_pow(-1);
    match b {
        BasisElem::Z0 => [Zw::one(), Zw::zero()],
        BasisElem::Z1 => [Zw::zero(), Zw::one()],
        BasisElem::X0 => [h.clone(), h],
        BasisElem::X1 => [h.clone(), h.neg()],
        BasisElem::SKIP => unreachable!(),
    }
}

/// contract wire `w` (0-based among n wires, first most significant) of tensor t with vector v
fn contract_wire(t: &[Zw], n: usize, w: usize, v: &[Zw; 2]) -> Vec<Zw> {
    let m = n - 1;
    let mut out = Vec::with_capacity(1 << m);
    let lowbits = n - 1 - w;
    for a in 0..(1usize << m) {
        let hi = a >> lowbits;
        let lo = a & ((1 << lowbits) - 1);
        let i0 = (hi << (lowbits + 1)) | lo;
        let i1 = i0 | (1 << lowbits);
        out.push(t[i0].mul(&v[0]).add(&t[i1].mul(&v[1])));
    }
    out
}

/// reference result of plugging `list` into the inputs (side=0) or outputs (side=1) of a map with ni inputs / no outputs
fn plug_reference(t: &[Zw], ni: usize, no: usize, side: usize, list: &[BasisElem]) -> Vec<Zw> {
    let mut cur = t.to_vec();
    let mut n = ni + no;
    // contract from the last listed position backwards so wire indices stay valid
    for (pos, &b) in list.iter().enumerate().rev() {
        if b == BasisElem::SKIP {
            continue;
        }
        let w = if side == 0 { pos } else { ni + pos };
        cur = contract_wire(&cur, n, w, &basis_vec(b));
        n -= 1;
    }
    cur
}

fn all_lists(len: usize) -> Vec<Vec<BasisElem>> {
    let mut out = vec![];
    let total = 5usize.pow(len as u32);
    for mut k in 0..total {
        let mut l = vec![];
        for _ in 0..len {
            l.push(BASIS[k % 5]);
            k /= 5;
        }
        out.push(l);
    }
    out
}

fn judge_unary<G: GraphLike + PartialEq>(st: &mut Stats, spec: &DiagSpec, backend: &'static str, only: Option<&Value>) {
    let mut g: G = spec.build();
    // a generic (complex, non-unit) scalar: e^{i pi/4} / sqrt2
    *g.scalar_mut() = quizx::scalar::Scalar4::new([0, 1, 0, 0], 0) * quizx::scalar::Scalar4::new([0, 1, 0, -1], -1);
    let t = eval_graph(&g, None);
    let Some(tv) = exact(&t) else {
        st.inc("skipped_unevaluable_input");
        return;
    };
    let (ni, no) = (g.inputs().len(), g.outputs().len());
    let wit = |op: Value| json!({"kind": "unary", "spec": spec.to_json(), "backend": backend, "op": op});
    let want_op = |op: &Value| only.map(|o| o == op).unwrap_or(true);
    // adjoint
    let op = json!(["adjoint"]);
    if want_op(&op) {
        st.inc("evaluations");
        match guarded(|| {
            let a = g.to_adjoint();
            let mut aa = a.clone();
            aa.adjoint();
            (a, aa)
        }) {
            Err(p) => st.violation(Violation { sig: format!("adjoint|panic|{}", last_panic_site()), detail: p, witness: wit(op) }),
            Ok((a, aa)) => {
                let ta = eval_graph(&a, None);
                let want = Tensor::Exact(dagger(tv, ni, no));
                if !tensors_equal(&ta, &want) {
                    st.violation(Violation { sig: "adjoint|wrong-map".into(), detail: format!("got {} want {}", ta.show(), want.show()), witness: wit(op) });
                } else if aa != g {
                    st.violation(Violation { sig: "adjoint|not-involution".into(), detail: "adjoint applied twice is not == the original graph".into(), witness: wit(op) });
                } else {
                    st.inc("nontrivial");
                }
            }
        }
    }
    // plug_inputs / plug_outputs with every list of every length 0..=wires
    for side in 0..2 {
        let wires = if side == 0 { ni } else { no };
        for len in 0..=wires {
            for list in all_lists(len) {
                let names: Vec<String> = list.iter().map(|b| format!("{:?}", b)).collect();
                let op = json!([if side == 0 { "plug_inputs" } else { "plug_outputs" }, names]);
                if !want_op(&op) {
                    continue;
                }
                st.inc("evaluations");
                let mut h = g.clone();
                let r = guarded(|| if side == 0 { h.plug_inputs(&list) } else { h.plug_outputs(&list) });
                let cls = if len < wires { "short" } else { "full" };
                match r {
                    Err(p) => st.violation(Violation { sig: format!("{}|panic|{}|{}", op[0].as_str().unwrap(), cls, last_panic_site()), detail: p, witness: wit(op) }),
                    Ok(()) => {
                        let got = eval_graph(&h, None);
                        let want = Tensor::Exact(plug_reference(tv, ni, no, side, &list));
                        if !tensors_equal(&got, &want) {
                            st.violation(Violation { sig: format!("{}|wrong-map|{}", op[0].as_str().unwrap(), cls), detail: format!("list {:?}: got {} want {}", list, got.show(), want.show()), witness: wit(op) });
                        } else if list.iter().any(|&b| b != BasisElem::SKIP) {
                            st.inc("nontrivial");
                        }
                    }
                }
            }
        }
        // single-position plugging
        for i in 0..wires {
            for &b in &BASIS[..4] {
                let op = json!([if side == 0 { "plug_input" } else { "plug_output" }, i, format!("{:?}", b)]);
                if !want_op(&op) {
                    continue;
                }
                st.inc("evaluations");
                let mut h = g.clone();
                match guarded(|| if side == 0 { h.plug_input(i, b) } else { h.plug_output(i, b) }) {
                    Err(p) => st.violation(Violation { sig: format!("{}|panic|{}", op[0].as_str().unwrap(), last_panic_site()), detail: p, witness: wit(op) }),
                    Ok(()) => {
                        let mut list = vec![BasisElem::SKIP; i];
                        list.push(b);
                        let got = eval_graph(&h, None);
                        let want = Tensor::Exact(plug_reference(tv, ni, no, side, &list));
                        if !tensors_equal(&got, &want) {
                            st.violation(Violation { sig: format!("{}|wrong-map", op[0].as_str().unwrap()), detail: format!("got {} want {}", got.show(), want.show()), witness: wit(op) });
                        } else {
                            st.inc("nontrivial");
                        }
                    }
                }
            }
        }
    }
    // two single-position pluggings in a row (the second index refers to the shortened list): wide diagrams only
    for side in 0..2 {
        let wires = if side == 0 { ni } else { no };
        if wires < 3 {
            continue;
        }
        for i in 0..wires {
            for j in 0..wires - 1 {
                for (b1, b2) in [(BasisElem::Z0, BasisElem::X1), (BasisElem::Z1, BasisElem::Z0)] {
                    let name = if side == 0 { "plug_input" } else { "plug_output" };
                    let op = json!([format!("{}x2", name), i, j, format!("{:?}", b1), format!("{:?}", b2)]);
                    if !want_op(&op) {
                        continue;
                    }
                    st.inc("evaluations");
                    let mut h = g.clone();
                    match guarded(|| {
                        if side == 0 {
                            h.plug_input(i, b1);
                            h.plug_input(j, b2);
                        } else {
                            h.plug_output(i, b1);
                            h.plug_output(j, b2);
                        }
                    }) {
                        Err(p) => st.violation(Violation { sig: format!("{}x2|panic|{}", name, last_panic_site()), detail: p, witness: wit(op) }),
                        Ok(()) => {
                            let mut l1 = vec![BasisElem::SKIP; i];
                            l1.push(b1);
                            let t1 = plug_reference(tv, ni, no, side, &l1);
                            let (ni1, no1) = if side == 0 { (ni - 1, no) } else { (ni, no - 1) };
                            let mut l2 = vec![BasisElem::SKIP; j];
                            l2.push(b2);
                            let want = Tensor::Exact(plug_reference(&t1, ni1, no1, side, &l2));
                            let got = eval_graph(&h, None);
                            if !tensors_equal(&got, &want) {
                                st.violation(Violation { sig: format!("{}x2|wrong-map", name), detail: format!("got {} want {}", got.show(), want.show()), witness: wit(op) });
                            } else {
                                st.inc("nontrivial");
                            }
                        }
                    }
                }
            }
        }
    }
    // identity test
    let op = json!(["is_identity"]);
    if want_op(&op) {
        st.inc("evaluations");
        let want = ni == no
            && g.num_vertices() == 2 * ni
            && spec.verts.iter().all(|v| v.kind == 0)
            && (0..ni).all(|i| spec.edges.iter().any(|&(s, t, h)| !h && ((s == spec.inputs[i] && t == spec.outputs[i]) || (t == spec.inputs[i] && s == spec.outputs[i]))));
        match guarded(|| g.is_identity()) {
            Err(p) => st.violation(Violation { sig: format!("is_identity|panic|{}", last_panic_site()), detail: p, witness: wit(op) }),
            Ok(got) => {
                if got != want {
                    st.violation(Violation { sig: format!("is_identity|wrong|got={}", got), detail: format!("is_identity = {}, but plain wires i->i and nothing else = {}", got, want), witness: wit(op) });
                } else if want {
                    st.inc("nontrivial");
                }
            }
        }
    }
}

fn judge_pair<G: GraphLike>(st: &mut Stats, a: &DiagSpec, b: &DiagSpec, ta: &Tensor, tb: &Tensor, backend: &'static str) {
    let (Some(va), Some(vb)) = (exact(ta), exact(tb)) else { return };
    let ga: G = a.build();
    let gb: G = b.build();
    let wit = |op: &str| json!({"kind": "pair", "a": a.to_json(), "b": b.to_json(), "backend": backend, "op": op});
    // append = tensor product
    st.inc("evaluations");
    let mut r = ga.clone();
    match guarded(|| r.append_graph(&gb)) {
        Err(p) => st.violation(Violation { sig: format!("append_graph|panic|{}", last_panic_site()), detail: p, witness: wit("append") }),
        Ok(vmap) => {
            let mut ins = ga.inputs().clone();
            ins.extend(gb.inputs().iter().map(|v| vmap[v]));
            let mut outs = ga.outputs().clone();
            outs.extend(gb.outputs().iter().map(|v| vmap[v]));
            r.set_inputs(ins);
            r.set_outputs(outs);
            let got = eval_graph(&r, None);
            let want = Tensor::Exact(kron(va, vb, a.inputs.len(), a.outputs.len(), b.inputs.len(), b.outputs.len()));
            if !tensors_equal(&got, &want) {
                st.violation(Violation { sig: "append_graph|wrong-map".into(), detail: format!("got {} want {}", got.show(), want.show()), witness: wit("append") });
            } else {
                st.inc("nontrivial");
            }
        }
    }
    // plug = composition
    if a.outputs.len() == b.inputs.len() {
        st.inc("evaluations");
        let mut r = ga.clone();
        // classify the seam: does an output of a / an input of b connect straight to another boundary?
        let bb = |d: &DiagSpec, list: &Vec<u8>| list.iter().any(|&o| d.edges.iter().any(|&(s, t, _)| (s == o && d.verts[t as usize].kind == 0) || (t == o && d.verts[s as usize].kind == 0)));
        let cls = format!("a_out_on_boundary={}|b_in_on_boundary={}", bb(a, &a.outputs), bb(b, &b.inputs));
        match guarded(|| r.plug(&gb)) {
            Err(p) => st.violation(Violation { sig: format!("plug|panic|{}|{}", cls, last_panic_site()), detail: p, witness: wit("plug") }),
            Ok(()) => {
                let got = eval_graph(&r, None);
                let want = Tensor::Exact(compose(va, vb, a.inputs.len(), a.outputs.len(), b.outputs.len()));
                if got.is_bad() {
                    st.violation(Violation { sig: format!("plug|malformed-result|{}", cls), detail: format!("{}", got.show()), witness: wit("plug") });
                } else if !tensors_equal(&got, &want) {
                    st.violation(Violation { sig: format!("plug|wrong-map|{}", cls), detail: format!("got {} want {}", got.show(), want.show()), witness: wit("plug") });
                } else {
                    st.inc("nontrivial");
                }
            }
        }
    }
}

pub fn run(rep: &mut Report) {
    rep.rule = "case = (diagram, operation) or (ordered diagram pair, operation); the result's reference tensor is compared with the tensor-algebra result (composition, Kronecker product, conjugate transpose, contraction with |0>,|1>,|+>,|->); non-trivial = operation executed and agreed".into();
    rep.assume("basis lists are judged for every length 0..wires as the documentation of plug_inputs/plug_outputs promises");
    let quick = rep.quick();
    // unary operations
    let (s, b, phis): (usize, usize, &[Ph]) = if quick { (2, 2, &PHI6[..]) } else { (2, 3, &PHI6[..]) };
    let t0 = Instant::now();
    let structs = structures_upto(s, b, false);
    let stats = sweep(&structs, |st, i, base| {
        for_phases(base, phis, |spec| {
            watch_begin(i as u64, 0);
            st.inc("cases");
            judge_unary::<quizx::vec_graph::Graph>(st, spec, "vec", None);
            judge_unary::<quizx::hash_graph::Graph>(st, spec, "hash", None);
            // the same diagram with an id gap (two vertices created and removed first)
            let mut gapped = spec.clone();
            gapped.gap = 2;
            judge_unary::<quizx::vec_graph::Graph>(st, &gapped, "vec", None);
            st.sample(2, || spec.to_json());
            watch_end();
        });
    });
    rep.absorb(&format!("unary D({},{},Phi{})", s, b, phis.len()), "adjoint, plug_inputs/plug_outputs with every list over {Z0,Z1,X0,X1,SKIP} of every length 0..wires, plug_input/plug_output at every position, is_identity", true, None, t0, stats);
    // wide diagrams: 3 and 4 wires with a different spider on each (any permutation of the open wires is visible),
    // optionally coupled, and fans; every list, every position, two pluggings in a row
    {
        let t0 = Instant::now();
        let mut fam: Vec<DiagSpec> = vec![];
        let ph = [(1i16, 4i16), (1, 2), (3, 4), (1, 1)];
        for k in 3..=4usize {
            for coupling in 0..3 {
                for (nin, nout) in [(k, k), (k, 1), (1, k), (k, 0), (0, k)] {
                    if nin + nout > 6 {
                        continue;
                    }
                    let mut d = DiagSpec::empty();
                    let w = nin.max(nout);
                    let sp: Vec<u8> = (0..w).map(|i| d.add(if i % 2 == 0 { 1 } else { 2 }, ph[i % 4])).collect();
                    for i in 0..nin {
                        let b = d.add(0, (0, 1));
                        d.edges.push((b, sp[i % w], i == 1));
                        d.inputs.push(b);
                    }
                    for i in 0..nout {
                        let b = d.add(0, (0, 1));
                        d.edges.push((sp[i % w], b, false));
                        d.outputs.push(b);
                    }
                    for i in 0..w - 1 {
                        if coupling == 1 || (coupling == 2 && i == 0) {
                            d.edges.push((sp[i], sp[i + 1], true));
                        }
                    }
                    fam.push(d);
                }
            }
        }
        // bare wires: n = 1..3 wires in every permutation, with no / one Hadamard wire, with and without an extra
        // isolated spider (the identity test must say yes for exactly one of them per n)
        for n in 1..=3usize {
            let perms: Vec<Vec<usize>> = match n {
                1 => vec![vec![0]],
                2 => vec![vec![0, 1], vec![1, 0]],
                _ => vec![vec![0, 1, 2], vec![0, 2, 1], vec![1, 0, 2], vec![1, 2, 0], vec![2, 0, 1], vec![2, 1, 0]],
            };
            for perm in perms {
                for had in 0..=n {
                    for iso in 0..3 {
                        let mut d = DiagSpec::empty();
                        let ins: Vec<u8> = (0..n).map(|_| d.add(0, (0, 1))).collect();
                        let outs: Vec<u8> = (0..n).map(|_| d.add(0, (0, 1))).collect();
                        for i in 0..n {
                            d.edges.push((ins[i], outs[perm[i]], had == i + 1));
                        }
                        d.inputs = ins;
                        d.outputs = outs;
                        if iso > 0 {
                            d.add(1, if iso == 1 { (0, 1) } else { (1, 1) });
                        }
                        fam.push(d);
                    }
                }
            }
        }
        let stats = sweep(&fam, |st, i, spec| {
            watch_begin(i as u64, 2);
            st.inc("cases");
            judge_unary::<quizx::vec_graph::Graph>(st, spec, "vec", None);
            judge_unary::<quizx::hash_graph::Graph>(st, spec, "hash", None);
            watch_end();
        });
        rep.absorb("unary on wide diagrams", &format!("{} diagrams with 3 or 4 open wires on a side, a different spider on every wire (uncoupled, chain-coupled, one coupling): every basis list of every length, every single position, every pair of consecutive single-position pluggings; plus bare wires (1..3 wires in every permutation, no / one Hadamard wire, with and without an isolated spider)", fam.len()), true, None, t0, stats);
    }
    // binary operations: all ordered pairs
    let (s2, phis2): (usize, Vec<Ph>) = if quick { (1, vec![(0, 1), (1, 4), (1, 1)]) } else { (2, vec![(1, 4), (1, 1)]) };
    let t0 = Instant::now();
    let mut all: Vec<DiagSpec> = vec![];
    for base in structures_upto(s2, 2, false) {
        for_phases(&base, &phis2, |d| all.push(d.clone()));
    }
    if !quick {
        // the small family with all phases too
        for base in structures_upto(1, 2, false) {
            for_phases(&base, &PHI8, |d| all.push(d.clone()));
        }
        all.sort();
        all.dedup();
    }
    let tens: Vec<Tensor> = all.iter().map(|d| eval_graph(&d.build::<quizx::vec_graph::Graph>(), None)).collect();
    let stats = sweep(&all, |st, i, a| {
        watch_begin(i as u64, 1);
        for (j, b) in all.iter().enumerate() {
            st.inc("cases");
            judge_pair::<quizx::vec_graph::Graph>(st, a, b, &tens[i], &tens[j], "vec");
            judge_pair::<quizx::hash_graph::Graph>(st, a, b, &tens[i], &tens[j], "hash");
            // the same pair with id gaps (vertices created and removed first: the vertex maps of append / plug then
            // translate between non-contiguous id ranges and freed slots are re-used)
            let (mut ag, mut bg) = (a.clone(), b.clone());
            ag.gap = 1;
            bg.gap = 2;
            judge_pair::<quizx::vec_graph::Graph>(st, &ag, &bg, &tens[i], &tens[j], "vec");
            judge_pair::<quizx::hash_graph::Graph>(st, &ag, &bg, &tens[i], &tens[j], "hash");
        }
        watch_end();
    });
    rep.absorb(&format!("pairs over {} diagrams", all.len()), "append_graph (tensor product) on every ordered pair and plug (composition) on every composable ordered pair, including Hadamard boundary edges, bare wires, cups and caps", true, None, t0, stats);
}

pub fn replay(w: &Value) -> Option<Violation> {
    let mut st = Stats::default();
    let hash = w["backend"] == "hash";
    if w["kind"] == "unary" {
        let spec = DiagSpec::from_json(&w["spec"])?;
        if hash {
            judge_unary::<quizx::hash_graph::Graph>(&mut st, &spec, "hash", Some(&w["op"]));
        } else {
            judge_unary::<quizx::vec_graph::Graph>(&mut st, &spec, "vec", Some(&w["op"]));
        }
    } else {
        let a = DiagSpec::from_json(&w["a"])?;
        let b = DiagSpec::from_json(&w["b"])?;
        let ta = eval_graph(&a.build::<quizx::vec_graph::Graph>(), None);
        let tb = eval_graph(&b.build::<quizx::vec_graph::Graph>(), None);
        if hash {
            judge_pair::<quizx::hash_graph::Graph>(&mut st, &a, &b, &ta, &tb, "hash");
        } else {
            judge_pair::<quizx::vec_graph::Graph>(&mut st, &a, &b, &ta, &tb, "vec");
        }
        let op = w["op"].as_str().unwrap_or("");
        st.viols.retain(|k, _| k.starts_with(if op == "append" { "append" } else { "plug" }));
    }
    println!("replayed {} operation(s)", st.get("evaluations"));
    st.viols.into_values().next().map(|(_, v)| v)
}
