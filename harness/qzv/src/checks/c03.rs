//! C03 — optimise-and-extract returns an equivalent circuit over {H, Z-phase, CZ, CNOT, SWAP};
//! up-to-permutation extraction is equivalent after permuting the inputs; the CLI optimiser obeys the same contract.

use crate::conv::*;
use crate::gen::*;
use crate::report::*;
use crate::sweep_range;
use clap::Parser;
use quizx::circuit::Circuit;
use quizx::extract::*;
use quizx::gate::*;
use quizx::graph::*;
use quizx::simplify::*;
use qzv_ref::ring::*;
use serde_json::{json, Value};
use std::time::Instant;

const SIMPS: [&str; 3] = ["flow", "clifford", "full"];
const MODES: [&str; 7] = ["gflow", "gflow_simple_gauss", "gflow_up_to_perm", "flow", "simple_gauss_up_to_perm", "flow_up_to_perm", "default"];

fn apply_simp<G: GraphLike>(name: &str, g: &mut G) {
    match name {
        "flow" => {
            flow_simp(g);
        }
        "clifford" => {
            clifford_simp(g);
        }
        _ => {
            full_simp(g);
        }
    }
}

/// permute the input index of a tensor T[in, out] (q wires each): new input wire o carries old input perm[o]
fn permute_inputs<R: Ring>(t: &[R], q: usize, perm: &[usize]) -> Vec<R> {
    // result S[x, out] = T[x', out] where x'_o = x_{perm[o]}
    let n = 1usize << q;
    let mut s = vec![R::zero(); t.len()];
    for x in 0..n {
        let mut xp = 0usize;
        for o in 0..q {
            let b = (x >> (q - 1 - perm[o])) & 1;
            xp |= b << (q - 1 - o);
        }
        for out in 0..n {
            s[x * n + out] = t[xp * n + out].clone();
        }
    }
    s
}

fn basic_only(c: &Circuit) -> Option<String> {
    for g in &c.gates {
        match g.t {
            HAD | ZPhase | CZ | CNOT | SWAP => {}
            t => return Some(format!("{:?}", t)),
        }
    }
    None
}

pub fn judge<G: GraphLike + ToCircuit>(st: &mut Stats, c: &Circuit, backend: &'static str, only: Option<(&str, &str)>) {
    let rc = to_rcircuit(c, &[]).unwrap();
    let (want, _, _) = sim_circuit(&rc);
    let q = c.num_qubits();
    for simp in SIMPS {
        let mut g: G = c.to_graph();
        let wit0 = |mode: &str| json!({"kind": "extract", "circuit": circuit_json(c), "qasm": c.to_qasm(), "simp": simp, "mode": mode, "backend": backend});
        if let Err(p) = guarded(|| apply_simp(simp, &mut g)) {
            st.violation(Violation { sig: format!("{}_simp|panic|{}", simp, last_panic_site()), detail: p, witness: wit0("-") });
            continue;
        }
        for mode in MODES {
            if mode.starts_with("flow") && simp != "flow" {
                continue; // the Gauss-free extractor is only promised for diagrams with a causal flow
            }
            if let Some((s, m)) = only {
                if s != simp || m != mode {
                    continue;
                }
            }
            st.inc("evaluations");
            let mut g2 = g.clone();
            let r = guarded(|| {
                let mut e = g2.extractor();
                match mode {
                    "gflow" => e.gflow(),
                    "gflow_simple_gauss" => e.gflow_simple_gauss(),
                    "gflow_up_to_perm" => e.gflow().up_to_perm(),
                    "simple_gauss_up_to_perm" => e.gflow_simple_gauss().up_to_perm(),
                    "flow_up_to_perm" => e.flow().up_to_perm(),
                    "default" => &mut e,
                    _ => e.flow(),
                };
                e.extract().map_err(|e| e.0)
            });
            let ext = match r {
                Err(p) => {
                    st.violation(Violation { sig: format!("extract|{}|{}|panic|{}", simp, mode, last_panic_site()), detail: p, witness: wit0(mode) });
                    continue;
                }
                Ok(Err(msg)) => {
                    st.violation(Violation { sig: format!("extract|{}|{}|failed", simp, mode), detail: format!("extraction returned Err: {}", msg), witness: wit0(mode) });
                    continue;
                }
                Ok(Ok(x)) => x,
            };
            if ext.num_qubits() != q {
                st.violation(Violation { sig: format!("extract|{}|{}|qubits", simp, mode), detail: format!("{} qubits, expected {}", ext.num_qubits(), q), witness: wit0(mode) });
                continue;
            }
            if let Some(bad) = basic_only(&ext) {
                st.violation(Violation { sig: format!("extract|{}|{}|non-basic-gate", simp, mode), detail: format!("extracted circuit contains {}", bad), witness: wit0(mode) });
                continue;
            }
            let (mut got, _, _) = sim_circuit(&to_rcircuit(&ext, &[]).unwrap());
            if mode.ends_with("up_to_perm") {
                // the borrowed graph is left as bare wires: perm[o] = index of the input wired to output o
                let mut perm = vec![usize::MAX; q];
                for (o, &ov) in g2.outputs().iter().enumerate() {
                    if let Some(n) = g2.neighbors(ov).next() {
                        if let Some(i) = g2.inputs().iter().position(|&x| x == n) {
                            perm[o] = i;
                        }
                    }
                }
                let mut sorted = perm.clone();
                sorted.sort();
                if sorted != (0..q).collect::<Vec<_>>() {
                    st.violation(Violation { sig: format!("extract|{}|{}|leftover-not-a-permutation", simp, mode), detail: format!("leftover graph wiring {:?}", perm), witness: wit0(mode) });
                    continue;
                }
                got = match got {
                    Tensor::Exact(t) => Tensor::Exact(permute_inputs(&t, q, &perm)),
                    Tensor::Float(t, s) => Tensor::Float(permute_inputs(&t, q, &perm), s),
                    b => b,
                };
            }
            if !tensors_prop(&want, &got) {
                st.violation(Violation {
                    sig: format!("extract|{}|{}|not-equivalent", simp, mode),
                    detail: format!("extracted:\n{}\nis not proportional to the source; source {} extracted {}", ext.to_qasm(), want.show(), got.show()),
                    witness: wit0(mode),
                });
            } else {
                st.inc("nontrivial");
            }
        }
    }
}

fn scratch_dir() -> String {
    let d = format!("/verif/target/scratch/{}", std::process::id());
    let _ = std::fs::create_dir_all(&d);
    d
}

pub fn judge_cli(st: &mut Stats, c: &Circuit, only: Option<&str>) {
    let rc = to_rcircuit(c, &[]).unwrap();
    let (want, _, _) = sim_circuit(&rc);
    let dir = scratch_dir();
    // file names of their own for every call (never shared through a worker-thread index: a pool thread that waits
    // inside a nested parallel section can pick up another case of the sweep)
    static NEXT: std::sync::atomic::AtomicU64 = std::sync::atomic::AtomicU64::new(0);
    let tid = NEXT.fetch_add(1, std::sync::atomic::Ordering::Relaxed);
    let inp = format!("{}/in-{}.qasm", dir, tid);
    let out = format!("{}/out-{}.qasm", dir, tid);
    std::fs::write(&inp, c.to_qasm()).unwrap();
    for flag in ["--full", "--flow", "--clifford", ""] {
        if let Some(f) = only {
            if f != flag {
                continue;
            }
        }
        st.inc("evaluations");
        let _ = std::fs::remove_file(&out);
        let mut args = vec!["quizx", "opt", inp.as_str(), "-o", out.as_str()];
        if !flag.is_empty() {
            args.push(flag);
        }
        let wit = || json!({"kind": "cli", "circuit": circuit_json(c), "qasm": c.to_qasm(), "flag": flag});
        let r = guarded(|| match quizx::cli::Cli::try_parse_from(args.clone()) {
            Ok(cli) => cli.run().map_err(|e| format!("{}", e)),
            Err(e) => Err(format!("argument error: {}", e)),
        });
        match r {
            Err(p) => st.violation(Violation { sig: format!("cli-opt|{}|panic|{}", flag, last_panic_site()), detail: p, witness: wit() }),
            Ok(Err(e)) => st.violation(Violation { sig: format!("cli-opt|{}|error", flag), detail: e, witness: wit() }),
            Ok(Ok(())) => {
                let txt = std::fs::read_to_string(&out).unwrap_or_default();
                match Circuit::from_qasm(&txt) {
                    Err(e) => st.violation(Violation { sig: format!("cli-opt|{}|output-unparsable", flag), detail: format!("{}\n{}", e, txt), witness: wit() }),
                    Ok(o) => {
                        if o.num_qubits() != c.num_qubits() {
                            // F20: zero-gate outputs lose the qubit count when parsed back; judged by C14, not here
                            if o.num_gates() == 0 {
                                let id = Circuit::new(c.num_qubits());
                                let (idt, _, _) = sim_circuit(&to_rcircuit(&id, &[]).unwrap());
                                if tensors_prop(&want, &idt) {
                                    st.inc("nontrivial");
                                    continue;
                                }
                            }
                            st.violation(Violation { sig: format!("cli-opt|{}|qubits", flag), detail: format!("output has {} qubits", o.num_qubits()), witness: wit() });
                            continue;
                        }
                        if let Some(bad) = basic_only(&o) {
                            st.violation(Violation { sig: format!("cli-opt|{}|non-basic-gate", flag), detail: bad, witness: wit() });
                            continue;
                        }
                        let (got, _, _) = sim_circuit(&to_rcircuit(&o, &[]).unwrap());
                        if !tensors_prop(&want, &got) {
                            st.violation(Violation { sig: format!("cli-opt|{}|not-equivalent", flag), detail: format!("printed:\n{}", txt), witness: wit() });
                        } else {
                            st.inc("nontrivial");
                        }
                    }
                }
            }
        }
    }
}

type Fam = (&'static str, usize, Vec<Gate>, usize);

/// (circuit families, alphabet of the CLI families)
fn families(quick: bool) -> (Vec<Fam>, Vec<Gate>) {
    let mut swap2 = alpha_ct(2);
    swap2.push(Gate::new(SWAP, vec![0, 1]));
    // several CCZ / Toffoli gates with Paulis and Hadamards in between: the source of phase gadgets with
    // pi-phase hubs and of same-support gadget groups after full simplification
    let ccz3: Vec<Gate> = vec![
        Gate::new(CCZ, vec![0, 1, 2]), Gate::new(CCZ, vec![2, 1, 0]), Gate::new(CCZ, vec![0, 2, 1]), Gate::new(TOFF, vec![0, 1, 2]), Gate::new(TOFF, vec![1, 2, 0]),
        g1(NOT, 0), g1(NOT, 1), g1(NOT, 2), g1(HAD, 0), g1(HAD, 1), g1(HAD, 2), g1(T, 0), g1(Z, 1), Gate::new(CNOT, vec![0, 1]), Gate::new(CNOT, vec![1, 2]),
    ];
    // Toffoli-type gates only, on 4 qubits: every CCZ triple and every Toffoli (triple x target); words of these create
    // many phase gadgets whose hubs are pivoted away during extraction (vertex ids are recycled by the vector back end)
    let mut tof4: Vec<Gate> = vec![];
    for a in 0..4usize {
        for b in a + 1..4 {
            for c in b + 1..4 {
                tof4.push(Gate::new(CCZ, vec![a, b, c]));
                tof4.push(Gate::new(TOFF, vec![a, b, c]));
                tof4.push(Gate::new(TOFF, vec![a, c, b]));
                tof4.push(Gate::new(TOFF, vec![b, c, a]));
            }
        }
    }
    let fams: Vec<Fam> = if quick {
        vec![("K(3,3,A_ccz)", 3, ccz3.clone(), 3), ("K(2,3,A_ct+swap)", 2, swap2.clone(), 3), ("K(3,2,A_full)", 3, alpha_full(3), 2), ("K(3,4,A_cnot)", 3, alpha_cnot(3), 4), ("K(2,2,A_tol)", 2, alpha_tol(2), 2), ("K(3,4,A_pp)", 3, alpha_pp(3), 4), ("K(4,2,A_pp)", 4, alpha_pp(4), 2), ("K(4,3,A_tof4)", 4, tof4.clone(), 3)]
    } else {
        vec![("K(3,4,A_ccz)", 3, ccz3.clone(), 4), ("K(2,4,A_ct+swap)", 2, swap2.clone(), 4), ("K(3,3,A_ct)", 3, alpha_ct(3), 3), ("K(3,2,A_full)", 3, alpha_full(3), 2), ("K(2,3,A_full)", 2, alpha_full(2), 3), ("K(3,6,A_cnot)", 3, alpha_cnot(3), 6), ("K(4,4,A_cnot)", 4, alpha_cnot(4), 4), ("K(2,3,A_tol)", 2, alpha_tol(2), 3), ("K(3,5,A_pp)", 3, alpha_pp(3), 5), ("K(4,4,A_pp)", 4, alpha_pp(4), 4), ("K(4,4,A_tof4)", 4, tof4.clone(), 4)]
    };
    (fams, swap2)
}

pub fn run(rep: &mut Report) {
    rep.rule = "case = (circuit, simplifier, extractor mode, back end) or (circuit, CLI flag); the extracted circuit is simulated gate by gate and compared projectively (non-zero factor) with the source; non-trivial = extraction succeeded and was equivalent".into();
    rep.assume("CLI runs in-process through quizx::cli::Cli::try_parse_from(...).run() with -o; a zero-gate output is compared as the identity on the source's qubits (its lost qubit count is judged by C14)");
    let quick = rep.quick();
    let (fams, swap2) = families(quick);
    for (fi, (name, q, alpha, d)) in fams.into_iter().enumerate() {
        let t0 = Instant::now();
        let n = circuit_count(alpha.len(), d);
        // the watchdog names a case that does not return by (index, family id): see replay "index"
        let fam_id = (if quick { 0 } else { 100 }) + fi as u64;
        let stats = sweep_range(n, |st, idx| {
            watch_begin(idx, fam_id);
            st.inc("cases");
            let c = circuit_at(q, &alpha, d, idx);
            judge::<quizx::vec_graph::Graph>(st, &c, "vec", None);
            judge::<quizx::hash_graph::Graph>(st, &c, "hash", None);
            st.sample(1, || json!({"qasm": c.to_qasm()}));
            watch_end();
        });
        rep.absorb(name, &format!("every circuit with <= {} gates over {} gate instances on {} qubits x {{flow,clifford,full}} x {{default, gflow, simple-Gauss, gflow up-to-perm, simple-Gauss up-to-perm, flow and flow up-to-perm (flow strategy only)}} x 2 back ends", d, alpha.len(), q), true, None, t0, stats);
    }
    // CLI end to end
    let cfams: Vec<(&str, usize, Vec<Gate>, usize)> = if quick { vec![("cli K(2,2,A_ct+swap)", 2, swap2, 2), ("cli K(3,1,A_full)", 3, alpha_full(3), 1)] } else { vec![("cli K(2,3,A_ct+swap)", 2, swap2, 3), ("cli K(3,2,A_full)", 3, alpha_full(3), 2)] };
    for (name, q, alpha, d) in cfams {
        let t0 = Instant::now();
        // pp gates cannot be parsed back from QASM by the CLI's own reader: keep the CLI inputs to what from_qasm accepts
        let alpha: Vec<Gate> = alpha.into_iter().filter(|g| g.t != ParityPhase).collect();
        let n = circuit_count(alpha.len(), d);
        let stats = sweep_range(n, |st, idx| {
            watch_begin(idx, 1);
            st.inc("cases");
            let c = circuit_at(q, &alpha, d, idx);
            if c.num_gates() > 0 {
                judge_cli(st, &c, None);
            }
            watch_end();
        });
        rep.absorb(name, "quizx opt <file> [--full|--flow|--clifford|default] -o <out>, output re-parsed and compared projectively", true, None, t0, stats);
    }
    let _ = std::fs::remove_dir_all(scratch_dir());
}

pub fn replay(w: &Value) -> Option<Violation> {
    if w["kind"] == "index" {
        // a case the watchdog reported as not returning: rebuild it from (family id, index) and run it under a timer
        let (inner, outer) = (w["inner"].as_u64()?, w["outer"].as_u64()?);
        let (fams, _) = families(inner < 100);
        let (name, q, alpha, d) = fams.get((inner % 100) as usize)?.clone();
        let c = circuit_at(q, &alpha, d, outer);
        println!("family {} index {}:\n{}", name, outer, c.to_qasm());
        let (tx, rx) = std::sync::mpsc::channel();
        let c2 = c.clone();
        std::thread::spawn(move || {
            let mut st = Stats::default();
            judge::<quizx::vec_graph::Graph>(&mut st, &c2, "vec", None);
            judge::<quizx::hash_graph::Graph>(&mut st, &c2, "hash", None);
            let _ = tx.send(st.viols.into_values().next().map(|(_, v)| v));
        });
        return match rx.recv_timeout(std::time::Duration::from_secs(20)) {
            Ok(v) => v,
            Err(_) => {
                println!("REPRODUCED property=C03 signature=nontermination");
                println!("  optimise-and-extract did not return within 20 s");
                std::process::exit(1);
            }
        };
    }
    let c = circuit_from_json(&w["circuit"])?;
    let mut st = Stats::default();
    if w["kind"] == "cli" {
        judge_cli(&mut st, &c, w["flag"].as_str());
    } else {
        let only = (w["simp"].as_str()?, w["mode"].as_str()?);
        let only = if only.1 == "-" { None } else { Some(only) };
        if w["backend"] == "hash" {
            judge::<quizx::hash_graph::Graph>(&mut st, &c, "hash", only);
        } else {
            judge::<quizx::vec_graph::Graph>(&mut st, &c, "vec", only);
        }
    }
    println!("replayed {} run(s) on\n{}", st.get("evaluations"), c.to_qasm());
    st.viols.into_values().next().map(|(_, v)| v)
}
