//! C18 — rank-decomposition trees stay valid with correct cached widths under all moves; the annealer returns a
//! valid decomposition no wider than its start.
//!
//! E2 + E3: for every graph of a family and every initial tree `random_decomp` can produce (all scripted draws),
//! explicit-state BFS to closure over {leaf swap, local swap, subtree move} x every RNG answer, plus "query
//! width / score" (which fills the rank cache; cache content is part of the state).  No canonicalisation of
//! neighbour order or interior labels.

use crate::report::*;
use crate::script::*;
use quizx::graph::*;
use quizx::rankwidth::annealer::RankwidthAnnealer;
use quizx::rankwidth::decomp_tree::*;
use quizx::vec_graph::Graph;
use serde_json::{json, Value};
use std::collections::{BTreeMap, BTreeSet, VecDeque};
use std::time::Instant;

fn site_of(p: &str) -> String {
    p.rsplit(" @ ").next().unwrap_or("").to_string()
}

thread_local! {
    /// when set to Some(k): the graphs are built with one extra vertex that is removed again, so that the vertex ids have a
    /// gap at k (a graph after a removal: ids are not contiguous). The harness keeps working with logical ids 0..n.
    static GAP: std::cell::Cell<Option<usize>> = const { std::cell::Cell::new(None) };
}
thread_local! {
    /// edge kinds of the generated graphs: 0 = all Hadamard (default), 1 = all plain, 2 = alternating. Cut ranks only depend
    /// on adjacency, so every result must be the same whatever the kinds are.
    static EMODE: std::cell::Cell<u8> = const { std::cell::Cell::new(0) };
}
fn gap_json() -> Value {
    json!(GAP.with(|g| g.get()))
}
fn emode_json() -> Value {
    json!(EMODE.with(|g| g.get()))
}
fn actual(i: usize) -> usize {
    match GAP.with(|g| g.get()) {
        Some(k) if i >= k => i + 1,
        _ => i,
    }
}
fn logical(a: usize) -> Option<usize> {
    match GAP.with(|g| g.get()) {
        Some(k) if a == k => None,
        Some(k) if a > k => Some(a - 1),
        _ => Some(a),
    }
}

fn make_graph(n: usize, edges: &[(usize, usize)]) -> Graph {
    let mut g = Graph::new();
    let gap = GAP.with(|g| g.get());
    for _ in 0..(n + gap.is_some() as usize) {
        g.add_vertex(VType::Z);
    }
    if let Some(k) = gap {
        g.remove_vertex(k);
    }
    let emode = EMODE.with(|g| g.get());
    for (k, &(a, b)) in edges.iter().enumerate() {
        let et = if emode == 1 || (emode == 2 && k % 2 == 0) { EType::N } else { EType::H };
        g.add_edge_with_type(actual(a), actual(b), et);
    }
    g
}

fn all_pairs(n: usize) -> Vec<(usize, usize)> {
    (0..n).flat_map(|i| (i + 1..n).map(move |j| (i, j))).collect()
}

fn graph_from_mask(n: usize, mask: u32) -> (Vec<(usize, usize)>, Graph) {
    let es: Vec<(usize, usize)> = all_pairs(n).into_iter().enumerate().filter(|(k, _)| (mask >> k) & 1 == 1).map(|(_, e)| e).collect();
    let g = make_graph(n, &es);
    (es, g)
}

/// canonical mask of a graph under vertex permutations (smallest mask)
fn canon_mask(n: usize, mask: u32) -> u32 {
    let pairs = all_pairs(n);
    let mut best = u32::MAX;
    let mut perm: Vec<usize> = (0..n).collect();
    fn heap(k: usize, perm: &mut Vec<usize>, f: &mut dyn FnMut(&[usize])) {
        if k == 1 {
            f(perm);
            return;
        }
        for i in 0..k {
            heap(k - 1, perm, f);
            if k % 2 == 0 {
                perm.swap(i, k - 1)
            } else {
                perm.swap(0, k - 1)
            }
        }
    }
    heap(n.max(1), &mut perm, &mut |p| {
        let mut m = 0u32;
        for (k, &(a, b)) in pairs.iter().enumerate() {
            if (mask >> k) & 1 == 1 {
                let (x, y) = (p[a].min(p[b]), p[a].max(p[b]));
                let idx = pairs.iter().position(|&e| e == (x, y)).unwrap();
                m |= 1 << idx;
            }
        }
        best = best.min(m);
    });
    best
}

/// rank over F2 of the biadjacency matrix between two vertex sets
fn cut_rank(edges: &[(usize, usize)], a: &[usize], b: &[usize]) -> usize {
    let mut rows: Vec<u64> = a.iter().map(|&x| b.iter().enumerate().fold(0u64, |acc, (j, &y)| if edges.contains(&(x.min(y), x.max(y))) { acc | (1 << j) } else { acc })).collect();
    let mut rank = 0;
    for bit in 0..b.len() {
        if let Some(p) = (rank..rows.len()).find(|&r| (rows[r] >> bit) & 1 == 1) {
            rows.swap(rank, p);
            for r in 0..rows.len() {
                if r != rank && (rows[r] >> bit) & 1 == 1 {
                    rows[r] ^= rows[rank];
                }
            }
            rank += 1;
        }
    }
    rank
}

/// harness-side structural check + brute-force width / score; returns per-edge true ranks
fn analyse(t: &DecompTree, n: usize, edges: &[(usize, usize)]) -> Result<(usize, usize, BTreeMap<(usize, usize), usize>), String> {
    let nn = t.nodes.len();
    // index lists consistent with the node array
    let mut leaves: Vec<usize> = (0..nn).filter(|&i| t.nodes[i].is_leaf()).collect();
    let mut interior: Vec<usize> = (0..nn).filter(|&i| t.nodes[i].is_interior()).collect();
    let (mut l2, mut i2) = (t.leaves.clone(), t.interior.clone());
    l2.sort();
    i2.sort();
    leaves.sort();
    interior.sort();
    if l2 != leaves || i2 != interior {
        return Err(format!("leaves / interior index lists {:?} / {:?} do not match the node array", t.leaves, t.interior));
    }
    // cubic, symmetric, simple
    let mut adj: Vec<Vec<usize>> = vec![vec![]; nn];
    for (i, node) in t.nodes.iter().enumerate() {
        let nb = node.nhd();
        for &j in nb {
            if j >= nn || j == i {
                return Err(format!("node {} has neighbour {} (out of range or itself)", i, j));
            }
        }
        let set: BTreeSet<usize> = nb.iter().copied().collect();
        if set.len() != nb.len() {
            return Err(format!("node {} lists a neighbour twice: {:?}", i, nb));
        }
        adj[i] = nb.to_vec();
    }
    for i in 0..nn {
        for &j in &adj[i] {
            if !adj[j].contains(&i) {
                return Err(format!("adjacency not symmetric: {} -> {} but not back", i, j));
            }
        }
    }
    let ne: usize = adj.iter().map(|a| a.len()).sum::<usize>() / 2;
    if nn == 0 || ne != nn - 1 {
        return Err(format!("{} nodes and {} edges: not a tree", nn, ne));
    }
    // connected
    let mut seen = vec![false; nn];
    let mut stack = vec![0usize];
    seen[0] = true;
    while let Some(x) = stack.pop() {
        for &y in &adj[x] {
            if !seen[y] {
                seen[y] = true;
                stack.push(y);
            }
        }
    }
    if seen.iter().any(|s| !s) {
        return Err("tree is not connected".into());
    }
    // leaves are exactly the graph's vertices
    let raw: Vec<usize> = t.nodes.iter().filter_map(|nd| if let DecompNode::Leaf(_, v) = nd { Some(*v) } else { None }).collect();
    if raw.iter().any(|&a| logical(a).is_none()) {
        return Err(format!("leaf vertices {:?} include an id that is not in the graph", raw));
    }
    let mut lv: Vec<usize> = raw.iter().map(|&a| logical(a).unwrap()).collect();
    lv.sort();
    if lv != (0..n).collect::<Vec<_>>() {
        return Err(format!("leaf vertices {:?} are not exactly the graph's vertices", lv));
    }
    // ranks of all tree edges by brute force
    let mut ranks = BTreeMap::new();
    let (mut width, mut score) = (0, 0);
    for i in 0..nn {
        for &j in &adj[i] {
            if i < j {
                // side of i without crossing j
                let mut side = vec![];
                let mut seen = vec![false; nn];
                seen[j] = true;
                seen[i] = true;
                let mut st = vec![i];
                while let Some(x) = st.pop() {
                    if let DecompNode::Leaf(_, v) = t.nodes[x] {
                        side.push(logical(v).unwrap());
                    }
                    for &y in &adj[x] {
                        if !seen[y] {
                            seen[y] = true;
                            st.push(y);
                        }
                    }
                }
                let other: Vec<usize> = (0..n).filter(|v| !side.contains(v)).collect();
                let r = cut_rank(edges, &side, &other);
                ranks.insert((i, j), r);
                width = width.max(r);
                score += r * r;
            }
        }
    }
    Ok((width, score, ranks))
}

fn tree_key(t: &mut DecompTree) -> String {
    let mut cached: Vec<((usize, usize), usize)> = vec![];
    for e in t.edges() {
        if let Some(r) = t.rank(e) {
            cached.push((e, r));
        }
    }
    format!("{:?}|{:?}|{:?}|{:?}", t.nodes, t.leaves, t.interior, cached)
}

/// invariants of one state; returns a violation (sig, detail)
fn check_state(t: &DecompTree, n: usize, edges: &[(usize, usize)], g: &Graph) -> Option<(String, String)> {
    let (width, score, ranks) = match analyse(t, n, edges) {
        Err(e) => return Some(("tree|not-a-valid-cubic-tree".into(), e)),
        Ok(x) => x,
    };
    match guarded(|| t.is_valid_for_graph(g)) {
        Ok(true) => {}
        Ok(false) => return Some(("is_valid_for_graph|false-on-valid-tree".into(), format!("{:?}", t.nodes))),
        Err(p) => return Some((format!("is_valid_for_graph|panic|{}", last_panic_site()), p)),
    }
    // cached ranks must be the true cut ranks
    let mut c = t.clone();
    for (&e, &r) in &ranks {
        if let Some(cr) = c.rank(e) {
            if cr != r {
                return Some(("cache|stale-rank".into(), format!("cached rank of tree edge {:?} is {}, the cut rank is {}; nodes {:?}", e, cr, r, t.nodes)));
            }
        }
    }
    // reported values (from the incrementally invalidated cache) vs from scratch vs brute force
    let mut a = t.clone();
    let mut b = t.clone();
    b.clear_ranks();
    let got = guarded(|| (a.rankwidth(g), a.rankwidth_score(g), b.rankwidth(g), b.rankwidth_score(g)));
    match got {
        Err(p) => Some((format!("rankwidth|panic|{}", last_panic_site()), p)),
        Ok((w1, s1, w2, s2)) => {
            if (w2, s2) != (width, score) {
                Some(("rankwidth|from-scratch-wrong".into(), format!("recomputed width/score {}/{}, brute force {}/{}", w2, s2, width, score)))
            } else if (w1, s1) != (width, score) {
                Some(("rankwidth|cached-differs".into(), format!("reported width/score {}/{} from the cache, recomputed {}/{}", w1, s1, width, score)))
            } else {
                None
            }
        }
    }
}

#[derive(Clone, Debug)]
struct Step {
    mv: &'static str,
    script: Vec<u32>,
}

fn apply_move(t: &mut DecompTree, mv: &str, g: &Graph) {
    match mv {
        "leaf_swap" => t.swap_random_leaves(&mut ScriptedRng),
        "local_swap" => t.random_local_swap(&mut ScriptedRng),
        "subtree_move" => t.move_random_subtree(&mut ScriptedRng),
        "query_width" => {
            t.rankwidth(g);
        }
        _ => {
            t.rankwidth_score(g);
        }
    }
}

const MOVES: [&str; 5] = ["leaf_swap", "local_swap", "subtree_move", "query_width", "query_score"];

fn witness(n: usize, edges: &[(usize, usize)], init: &[u32], path: &[Step]) -> Value {
    json!({"kind": "moves", "n": n, "gap": gap_json(), "emode": emode_json(), "edges": edges, "init_script": init, "path": path.iter().map(|s| json!([s.mv, s.script])).collect::<Vec<_>>()})
}

/// closure of the move system on one graph; returns (states, complete)
fn explore_graph(st: &mut Stats, n: usize, edges: &[(usize, usize)], state_cap: usize, depth_cap: usize) -> bool {
    let g = make_graph(n, edges);
    st.inc("cases");
    // E3: every initial tree random_decomp can produce
    let mut inits: Vec<(Vec<u32>, DecompTree)> = vec![];
    let gg = g.clone();
    let (_, complete_init) = explore(
        64,
        usize::MAX,
        200_000,
        || DecompTree::random_decomp(&gg, &mut ScriptedRng),
        |e| {
            st.inc("evaluations");
            st.inc("transitions");
            match e.end {
                RunEnd::Done(t) => inits.push((e.script, t)),
                RunEnd::DrawLimit => {}
                RunEnd::Panic(p) => st.violation(Violation { sig: format!("random_decomp|panic|{}", site_of(&p)), detail: p, witness: witness(n, edges, &e.script, &[]) }),
            }
        },
    );
    let mut seen: BTreeSet<String> = BTreeSet::new();
    let mut q: VecDeque<(DecompTree, Vec<u32>, Vec<Step>)> = VecDeque::new();
    for (script, mut t) in inits {
        if let Some((sig, detail)) = check_state(&t, n, edges, &g) {
            st.violation(Violation { sig: format!("random_decomp|{}", sig), detail, witness: witness(n, edges, &script, &[]) });
            continue;
        }
        if seen.insert(tree_key(&mut t)) {
            st.inc("states");
            q.push_back((t, script, vec![]));
        }
    }
    st.add("initial_trees", seen.len() as u64);
    let mut complete = complete_init;
    while let Some((t, init, path)) = q.pop_front() {
        if path.len() >= depth_cap {
            complete = false;
            continue;
        }
        for mv in MOVES {
            let base = t.clone();
            let gg = g.clone();
            let mut outcomes: Vec<(Vec<u32>, RunEnd<DecompTree>)> = vec![];
            // subtree move retries until its random path is long enough: one round of draws decides the successor
            let max_draws = if mv == "subtree_move" { 2 } else { 8 };
            explore(
                max_draws,
                usize::MAX,
                100_000,
                || {
                    let mut t2 = base.clone();
                    apply_move(&mut t2, mv, &gg);
                    t2
                },
                |e| outcomes.push((e.script, e.end)),
            );
            for (script, end) in outcomes {
                st.inc("evaluations");
                st.inc("transitions");
                let mut p2 = path.clone();
                p2.push(Step { mv, script });
                match end {
                    RunEnd::DrawLimit => st.inc("pruned_retry_rounds"),
                    RunEnd::Panic(p) => st.violation(Violation { sig: format!("{}|panic|{}", mv, site_of(&p)), detail: p, witness: witness(n, edges, &init, &p2) }),
                    RunEnd::Done(mut t2) => {
                        if let Some((sig, detail)) = check_state(&t2, n, edges, &g) {
                            st.violation(Violation { sig: format!("{}|{}", mv, sig), detail, witness: witness(n, edges, &init, &p2) });
                            continue;
                        }
                        st.inc("nontrivial");
                        if seen.len() < state_cap {
                            if seen.insert(tree_key(&mut t2)) {
                                st.inc("states");
                                q.push_back((t2, init.clone(), p2));
                            }
                        } else {
                            complete = false;
                        }
                    }
                }
            }
        }
    }
    complete
}

/// E3 on the annealer: every draw (initial decomposition, operator choice, move draws, acceptance) enumerated
fn explore_annealer(st: &mut Stats, n: usize, edges: &[(usize, usize)], iterations: usize, adaptive: bool, temp: f64) {
    let g = make_graph(n, edges);
    st.inc("cases");
    let gg = g.clone();
    let es = edges.to_vec();
    let mut results = vec![];
    explore(
        40,
        usize::MAX,
        300_000,
        || {
            let mut a = RankwidthAnnealer::new(gg.clone(), ScriptedRng);
            a.set_iterations(iterations).set_adaptive_cooling(adaptive).set_init_temp(temp);
            let mut init = a.init_decomp().clone();
            let w0 = init.rankwidth(&gg);
            let out = a.run();
            // re-use of the annealer: the starting tree is still there, and a further run with no iterations left
            // (it draws nothing) returns it
            let init_after = format!("{:?}", a.init_decomp().nodes);
            a.set_iterations(0);
            let again = a.run();
            let reuse_ok = init_after == format!("{:?}", init.nodes) && format!("{:?}", again.nodes) == init_after;
            (w0, out, reuse_ok, init_after, format!("{:?}", again.nodes))
        },
        |e| results.push((e.script, e.end)),
    );
    for (script, end) in results {
        st.inc("evaluations");
        st.inc("transitions");
        let w = || json!({"kind": "annealer", "n": n, "gap": gap_json(), "emode": emode_json(), "edges": es, "iterations": iterations, "adaptive": adaptive, "temp": temp, "script": script});
        let cls = format!("adaptive={}|{}", adaptive, if es.is_empty() { "edgeless" } else { "with-edges" });
        match end {
            RunEnd::DrawLimit => st.inc("pruned_retry_rounds"),
            RunEnd::Panic(p) => st.violation(Violation { sig: format!("annealer|panic|{}|{}", cls, site_of(&p)), detail: p, witness: w() }),
            RunEnd::Done((_, _, false, init_after, again)) => st.violation(Violation { sig: format!("annealer|re-use|{}", cls), detail: format!("after run(): init_decomp() = {}, a further run with 0 iterations returned {}", init_after, again), witness: w() }),
            RunEnd::Done((w0, out, _, _, _)) => match analyse(&out, n, &es) {
                Err(e) => st.violation(Violation { sig: format!("annealer|invalid-result|{}", cls), detail: e, witness: w() }),
                Ok((width, _, _)) => {
                    if width > w0 {
                        st.violation(Violation { sig: format!("annealer|wider-than-start|{}", cls), detail: format!("start width {}, result width {}", w0, width), witness: w() });
                    } else if !out.is_valid_for_graph(&g) {
                        st.violation(Violation { sig: format!("annealer|is_valid-false|{}", cls), detail: format!("{:?}", out.nodes), witness: w() });
                    } else {
                        st.inc("nontrivial");
                    }
                }
            },
        }
    }
}

/// E3 on the annealer from NON-initial states: started from every tree random_decomp can produce (new_with_decomp),
/// one iteration, every draw enumerated: any single accepted move that lowers the score but raises the width is seen
fn explore_annealer_from_all(st: &mut Stats, n: usize, edges: &[(usize, usize)], iterations: usize, tree_stride: usize) {
    let g = make_graph(n, edges);
    st.inc("cases");
    let mut inits: Vec<(Vec<u32>, DecompTree)> = vec![];
    let gg = g.clone();
    explore(64, usize::MAX, 500_000, || DecompTree::random_decomp(&gg, &mut ScriptedRng), |e| {
        if let RunEnd::Done(t) = e.end {
            inits.push((e.script, t));
        }
    });
    // distinct trees only
    let mut seen = BTreeSet::new();
    inits.retain(|(_, t)| seen.insert(format!("{:?}", t.nodes)));
    st.add("initial_trees", inits.len() as u64);
    let es = edges.to_vec();
    for (init_script, t0) in inits.into_iter().step_by(tree_stride) {
        let Ok((w0, _, _)) = analyse(&t0, n, &es) else { continue };
        for adaptive in [true, false] {
            let mut results = vec![];
            let gg = g.clone();
            let tt = t0.clone();
            explore(
                24,
                usize::MAX,
                100_000,
                || {
                    let mut a = RankwidthAnnealer::new_with_decomp(gg.clone(), tt.clone(), ScriptedRng);
                    a.set_iterations(iterations).set_adaptive_cooling(adaptive);
                    a.run()
                },
                |e| results.push((e.script, e.end)),
            );
            for (script, end) in results {
                st.inc("evaluations");
                st.inc("transitions");
                let w = || json!({"kind": "annealer-from", "n": n, "gap": gap_json(), "emode": emode_json(), "edges": es, "init_script": init_script, "iterations": iterations, "adaptive": adaptive, "script": script});
                match end {
                    RunEnd::DrawLimit => st.inc("pruned_retry_rounds"),
                    RunEnd::Panic(p) => st.violation(Violation { sig: format!("annealer-from|panic|{}", site_of(&p)), detail: p, witness: w() }),
                    RunEnd::Done(out) => match analyse(&out, n, &es) {
                        Err(e) => st.violation(Violation { sig: "annealer-from|invalid-result".into(), detail: e, witness: w() }),
                        Ok((width, _, _)) => {
                            if width > w0 {
                                st.violation(Violation { sig: "annealer-from|wider-than-start".into(), detail: format!("start tree {:?} has width {}, the annealer returned {:?} with width {}", t0.nodes, w0, out.nodes, width), witness: w() });
                            } else {
                                st.inc("nontrivial");
                            }
                        }
                    },
                }
            }
        }
    }
}


fn disagreement_graphs() -> Vec<(&'static str, Vec<(usize, usize)>)> {
    let cyc = |n: usize| (0..n).map(|i| (i.min((i + 1) % n), i.max((i + 1) % n))).collect::<Vec<_>>();
    let mut cube = vec![];
    for a in 0..8usize {
        for b in a + 1..8 {
            if (a ^ b).count_ones() == 1 {
                cube.push((a, b));
            }
        }
    }
    let mut k44 = vec![];
    for a in 0..4 {
        for b in 4..8 {
            k44.push((a, b));
        }
    }
    let mut wagner = cyc(8);
    for i in 0..4 {
        wagner.push((i, i + 4));
    }
    vec![
        ("sparse-9-edges", vec![(0, 4), (0, 7), (1, 3), (1, 4), (2, 6), (3, 4), (3, 5), (4, 6), (5, 6)]),
        ("cycle", cyc(8)),
        ("cube", cube),
        ("K4,4", k44),
        ("wagner", wagner),
        ("two-K4-bridge", vec![(0, 1), (0, 2), (0, 3), (1, 2), (1, 3), (2, 3), (4, 5), (4, 6), (4, 7), (5, 6), (5, 7), (6, 7), (3, 4)]),
        ("matching", vec![(0, 1), (2, 3), (4, 5), (6, 7)]),
        ("path", (0..7).map(|i| (i, i + 1)).collect()),
    ]
}

/// every cubic tree on n labelled leaves (n >= 3), built through the public constructors: (2n-5)!! trees
fn all_trees(n: usize) -> Vec<DecompTree> {
    // abstract form: adjacency lists; node kinds: Some(v) leaf, None interior
    type Abs = (Vec<Option<usize>>, Vec<Vec<usize>>);
    let mut cur: Vec<Abs> = vec![(vec![None, Some(0), Some(1), Some(2)], vec![vec![1, 2, 3], vec![0], vec![0], vec![0]])];
    for v in 3..n {
        let mut next = vec![];
        for (kind, adj) in &cur {
            for a in 0..adj.len() {
                for &b in &adj[a] {
                    if a < b {
                        let (mut k2, mut a2) = (kind.clone(), adj.clone());
                        let x = k2.len();
                        let l = x + 1;
                        k2.push(None);
                        k2.push(Some(v));
                        for y in a2[a].iter_mut() {
                            if *y == b {
                                *y = x;
                            }
                        }
                        for y in a2[b].iter_mut() {
                            if *y == a {
                                *y = x;
                            }
                        }
                        a2.push(vec![a, b, l]);
                        a2.push(vec![x]);
                        next.push((k2, a2));
                    }
                }
            }
        }
        cur = next;
    }
    cur.into_iter()
        .map(|(kind, adj)| {
            let mut t = DecompTree::new();
            for i in 0..kind.len() {
                match kind[i] {
                    Some(v) => {
                        t.add_leaf(adj[i][0], v);
                    }
                    None => {
                        t.add_interior([adj[i][0], adj[i][1], adj[i][2]]);
                    }
                }
            }
            t
        })
        .collect()
}

/// Two-phase search for the annealer's "no wider than the start" clause where score and width disagree.
/// Phase 1: from every cubic tree on the graph's vertices, every single move (all draws enumerated) is applied and the
/// states from which some move lowers the score while raising the width are collected (the only states from which one
/// accepted move can make "best score" and "best width" differ). Phase 2: the real annealer is started from each of
/// them (new_with_decomp), `iterations` iterations, every draw enumerated, adaptive cooling on/off.
fn explore_annealer_disagreement(st: &mut Stats, n: usize, edges: &[(usize, usize)], trees: &[DecompTree], iterations: usize, max_states: usize) {
    let g = make_graph(n, edges);
    st.inc("cases");
    let es = edges.to_vec();
    let mut interesting: Vec<(usize, DecompTree, usize)> = vec![];
    for (ti, t0) in trees.iter().enumerate() {
        st.inc("states");
        let mut a = t0.clone();
        let (w0, s0) = (a.rankwidth(&g), a.rankwidth_score(&g));
        let mut found = false;
        for mv in ["leaf_swap", "local_swap", "subtree_move"] {
            let base = t0.clone();
            let gg = g.clone();
            explore(
                if mv == "subtree_move" { 2 } else { 8 },
                usize::MAX,
                100_000,
                || {
                    let mut t2 = base.clone();
                    apply_move(&mut t2, mv, &gg);
                    (t2.rankwidth(&gg), t2.rankwidth_score(&gg))
                },
                |e| {
                    st.inc("transitions");
                    if let RunEnd::Done((w, s)) = e.end {
                        if s < s0 && w > w0 {
                            found = true;
                        }
                    }
                },
            );
            if found {
                break;
            }
        }
        if found {
            st.inc("score_down_width_up_states");
            if interesting.len() < max_states {
                interesting.push((ti, t0.clone(), w0));
            }
        }
    }
    for (ti, t0, _) in interesting {
        let Ok((w0, _, _)) = analyse(&t0, n, &es) else { continue };
        for adaptive in [true, false] {
            let mut results = vec![];
            let gg = g.clone();
            let tt = t0.clone();
            // one iteration = operator draw, the move's draws, possibly the acceptance draw; a subtree move whose first
            // random pair is too close draws again from the same ranges: that retry round is cut (4th draw with a range > 3)
            set_prune(Some(|trace, n, is_bool| trace.len() >= 3 && !is_bool && n > 3));
            let (_, complete) = explore(
                8,
                usize::MAX,
                400_000,
                || {
                    let mut a = RankwidthAnnealer::new_with_decomp(gg.clone(), tt.clone(), ScriptedRng);
                    a.set_iterations(iterations).set_adaptive_cooling(adaptive);
                    a.run()
                },
                |e| results.push((e.script, e.end)),
            );
            set_prune(None);
            if !complete {
                st.inc("run_cap_hit");
            }
            for (script, end) in results {
                st.inc("evaluations");
                st.inc("transitions");
                let w = || json!({"kind": "annealer-tree", "n": n, "gap": gap_json(), "emode": emode_json(), "edges": es, "tree_index": ti, "iterations": iterations, "adaptive": adaptive, "script": script});
                match end {
                    RunEnd::DrawLimit => st.inc("pruned_retry_rounds"),
                    RunEnd::Panic(p) => st.violation(Violation { sig: format!("annealer-from|panic|{}", site_of(&p)), detail: p, witness: w() }),
                    RunEnd::Done(out) => match analyse(&out, n, &es) {
                        Err(e) => st.violation(Violation { sig: "annealer-from|invalid-result".into(), detail: e, witness: w() }),
                        Ok((width, _, _)) => {
                            if width > w0 {
                                st.violation(Violation { sig: "annealer-from|wider-than-start".into(), detail: format!("start tree {:?} has width {}, the annealer returned {:?} with width {}", t0.nodes, w0, out.nodes, width), witness: w() });
                            } else {
                                st.inc("nontrivial");
                            }
                        }
                    },
                }
            }
        }
    }
}

pub fn run(rep: &mut Report) {
    rep.rule = "state = decomposition tree exactly as stored (node array with neighbour order, leaf / interior index lists, cached ranks); transition = one move of the annealer's repertoire under one complete sequence of RNG answers (every announced draw enumerated), or a width / score query that fills the cache; invariants in every state: cubic tree whose leaves are exactly the vertices, is_valid_for_graph, every cached rank = brute-force cut rank, reported width/score = recomputed = brute force; non-trivial = move executed and all invariants held".into();
    rep.assume("RNG draws are owned through the announce hook and a scripted RngCore, calibrated against rand 0.9 at start-up; a subtree move whose first random pair is rejected is cut after one round (the retry offers exactly the same choices)");
    match calibrate() {
        Ok(n) => {
            rep.extra.insert("rng_calibration_points".into(), json!(n));
        }
        Err(e) => {
            rep.machinery_errors.push(format!("scripted RNG calibration failed: {}", e));
            return;
        }
    }
    let quick = rep.quick();
    use rayon::prelude::*;
    // closure on every graph with 2..4 vertices (quick: one representative per isomorphism class)
    for n in 2..=4usize {
        let t0 = Instant::now();
        let np = all_pairs(n).len();
        let masks: Vec<u32> = (0..(1u32 << np)).filter(|&m| !quick || canon_mask(n, m) == m).collect();
        let results: Vec<(Stats, bool)> = masks
            .par_iter()
            .map(|&m| {
                let (es, _) = graph_from_mask(n, m);
                let mut st = Stats::default();
                let c = explore_graph(&mut st, n, &es, 400_000, 10_000);
                st.sample(1, || json!({"n": n, "edges": es}));
                (st, c)
            })
            .collect();
        let complete = results.iter().all(|r| r.1);
        let stats = results.into_iter().map(|r| r.0).fold(Stats::default(), Stats::merge);
        rep.absorb(&format!("closure n={}", n), &format!("{} graphs on {} vertices ({}), every initial tree, move system explored to closure (move sequences of unbounded length)", masks.len(), n, if quick { "one per isomorphism class" } else { "all labelled graphs" }), complete, if complete { None } else { Some("state cap 400000 per graph reached".into()) }, t0, stats);
    }
    // the same closure on graphs whose vertex ids are not contiguous (a vertex was removed: gap at id 0 / at id 1)
    {
        let t0 = Instant::now();
        // (vertices, graph, gap position or 9 = none, edge kinds)
        let mut jobs: Vec<(usize, u32, usize, u8)> = vec![];
        for n in 2..=(if quick { 3usize } else { 4 }) {
            let np = all_pairs(n).len();
            for m in (0..(1u32 << np)).filter(|&m| canon_mask(n, m) == m) {
                for gap in [0usize, 1] {
                    jobs.push((n, m, gap, 0));
                }
                if m != 0 {
                    jobs.push((n, m, 9, 1));
                    jobs.push((n, m, 1, 2));
                }
            }
        }
        let results: Vec<(Stats, bool)> = jobs
            .par_iter()
            .map(|&(n, m, gap, emode)| {
                GAP.with(|g| g.set(if gap == 9 { None } else { Some(gap) }));
                EMODE.with(|g| g.set(emode));
                let (es, _) = graph_from_mask(n, m);
                let mut st = Stats::default();
                let c = explore_graph(&mut st, n, &es, 400_000, 10_000);
                // and the annealer on the same graph
                explore_annealer(&mut st, n, &es, if n >= 4 { 1 } else { 2 }, true, 5.0);
                GAP.with(|g| g.set(None));
                EMODE.with(|g| g.set(0));
                (st, c)
            })
            .collect();
        let complete = results.iter().all(|r| r.1);
        let stats = results.into_iter().map(|r| r.0).fold(Stats::default(), Stats::merge);
        rep.absorb("closure on graphs with an id gap / other edge kinds", &format!("{} (graph class, gap position, edge kinds) triples on 2..{} vertices: the graph is built with one extra vertex that is removed again (ids 1..n or 0,2..n) and / or with plain instead of Hadamard edges (all, alternating), then the same closure over all moves and a short annealer run", jobs.len(), if quick { 3 } else { 4 }), complete, None, t0, stats);
    }
    // 5 (and 6) vertices: bounded depth
    for (n, depth, cap) in if quick { vec![(5usize, 2usize, 60_000usize)] } else { vec![(5, 3, 400_000), (6, 2, 300_000)] } {
        let t0 = Instant::now();
        let np = all_pairs(n).len();
        // isomorphism representatives (5 vertices: 34 classes); 6 vertices: a fixed list of structured graphs
        let masks: Vec<u32> = if n == 5 { (0..(1u32 << np)).filter(|&m| canon_mask(n, m) == m).collect() } else { vec![0, (1 << np) - 1, 0b000000000011111, 0b100001000010001, 0b111000000000111, 0b010101010101010] };
        let masks: Vec<u32> = if quick { masks.into_iter().step_by(3).collect() } else { masks };
        let results: Vec<(Stats, bool)> = masks
            .par_iter()
            .map(|&m| {
                let (es, _) = graph_from_mask(n, m);
                let mut st = Stats::default();
                let c = explore_graph(&mut st, n, &es, cap, depth);
                (st, c)
            })
            .collect();
        let stats = results.into_iter().map(|r| r.0).fold(Stats::default(), Stats::merge);
        rep.absorb(&format!("bounded n={} depth {}", n, depth), &format!("{} graphs on {} vertices, every initial tree, BFS over moves to depth {} (state cap {} per graph)", masks.len(), n, depth, cap), false, Some(format!("depth bound {} (not a closure)", depth)), t0, stats);
    }
    // annealer
    let t0 = Instant::now();
    let mut cfgs = vec![];
    for n in 2..=4usize {
        let np = all_pairs(n).len();
        for m in (0..(1u32 << np)).filter(|&m| canon_mask(n, m) == m) {
            for adaptive in [true, false] {
                for temp in [5.0f64, 0.5] {
                    // quick: the four-vertex graphs (large choice trees) with the default temperature only
                    if quick && n == 4 && temp != 5.0 {
                        continue;
                    }
                    cfgs.push((n, m, adaptive, temp));
                }
            }
        }
    }
    let iters = if quick { 2 } else { 3 };
    let results: Vec<Stats> = cfgs
        .par_iter()
        .map(|&(n, m, adaptive, temp)| {
            let (es, _) = graph_from_mask(n, m);
            let mut st = Stats::default();
            // four-vertex graphs have large choice trees: one iteration less
            explore_annealer(&mut st, n, &es, if n == 4 { iters - 1 } else { iters }, adaptive, temp);
            st
        })
        .collect();
    let stats = results.into_iter().fold(Stats::default(), Stats::merge);
    // annealer from non-initial states (thorough only: the choice trees are large)
    if !quick {
        let t0 = Instant::now();
        let n = 5usize;
        let np = all_pairs(n).len();
        let masks: Vec<u32> = (0..(1u32 << np)).filter(|&m| canon_mask(n, m) == m).step_by(2).collect();
        let results: Vec<Stats> = masks
            .par_iter()
            .map(|&m| {
                let (es, _) = graph_from_mask(n, m);
                let mut st = Stats::default();
                explore_annealer_from_all(&mut st, n, &es, 1, 11);
                st
            })
            .collect();
        let stats = results.into_iter().fold(Stats::default(), Stats::merge);
        rep.absorb("annealer from every tree", &format!("{} graph classes on 5 vertices: the annealer started (new_with_decomp) from every 11th tree random_decomp can produce, one iteration, every draw enumerated, adaptive cooling on/off: result valid and no wider than the start", masks.len()), false, Some("stride over graph classes (2) and trees (11)".into()), t0, stats);
    }
    // score/width disagreement: 8-vertex graphs, every cubic tree
    {
        let t0 = Instant::now();
        let n = 8usize;
        let trees = all_trees(n);
        let graphs = disagreement_graphs();
        let graphs: Vec<_> = if quick { graphs.into_iter().take(1).collect() } else { graphs };
        let stride = if quick { 8 } else { 1 };
        // chunks of trees in parallel
        let chunks: Vec<(usize, Vec<DecompTree>)> = graphs.iter().enumerate().flat_map(|(gi, _)| {
            let sel: Vec<DecompTree> = trees.iter().step_by(stride).cloned().collect();
            sel.chunks(200).map(|c| (gi, c.to_vec())).collect::<Vec<_>>()
        }).collect();
        let results: Vec<Stats> = chunks
            .par_iter()
            .map(|(gi, ts)| {
                let mut st = Stats::default();
                explore_annealer_disagreement(&mut st, n, &graphs[*gi].1, ts, 1, 4);
                st
            })
            .collect();
        let stats = results.into_iter().fold(Stats::default(), Stats::merge);
        rep.absorb("annealer where score and width disagree", &format!("{} graphs on 8 vertices ({}), {} cubic trees each: every single move from every tree is scanned for 'score down, width up'; from such trees (at most 4 per block of 200) the annealer runs one iteration with every draw enumerated, adaptive cooling on/off: result valid and no wider than the start", graphs.len(), graphs.iter().map(|g| g.0).collect::<Vec<_>>().join(", "), trees.len() / stride), false, Some(format!("tree stride {}; at most 4 start states per block of 200 trees", stride)), t0, stats);
    }
    rep.absorb("annealer", &format!("RankwidthAnnealer::new(..).run() on every graph class with 2..4 vertices (edgeless included) x adaptive cooling on/off x initial temperature {{5, 0.5}}, {} iterations (one less on 4 vertices), every draw enumerated", iters), true, None, t0, stats);
}

pub fn replay(w: &Value) -> Option<Violation> {
    GAP.with(|g| g.set(w["gap"].as_u64().map(|x| x as usize)));
    EMODE.with(|g| g.set(w["emode"].as_u64().unwrap_or(0) as u8));
    let n = w["n"].as_u64()? as usize;
    let edges: Vec<(usize, usize)> = w["edges"].as_array()?.iter().map(|e| (e[0].as_u64().unwrap() as usize, e[1].as_u64().unwrap() as usize)).collect();
    let g = make_graph(n, &edges);
    let sc = |v: &Value| -> Vec<u32> { v.as_array().map(|a| a.iter().map(|x| x.as_u64().unwrap() as u32).collect()).unwrap_or_default() };
    if w["kind"] == "annealer-from" {
        let mut st = Stats::default();
        explore_annealer_from_all(&mut st, n, &edges, w["iterations"].as_u64()? as usize, 1);
        return st.viols.into_values().next().map(|(_, v)| v);
    }
    if w["kind"] == "annealer-tree" {
        let trees = all_trees(n);
        let t0 = trees.get(w["tree_index"].as_u64()? as usize)?.clone();
        let (w0, _, _) = analyse(&t0, n, &edges).ok()?;
        println!("start tree {:?} (width {})", t0.nodes, w0);
        begin(&sc(&w["script"]), 24);
        let (iterations, adaptive) = (w["iterations"].as_u64()? as usize, w["adaptive"].as_bool()?);
        let out = guarded(|| {
            let mut a = RankwidthAnnealer::new_with_decomp(g.clone(), t0.clone(), ScriptedRng);
            a.set_iterations(iterations).set_adaptive_cooling(adaptive);
            a.run()
        });
        return match out {
            Err(p) => Some(Violation { sig: format!("annealer-from|panic|{}", site_of(&p)), detail: p, witness: w.clone() }),
            Ok(out) => match analyse(&out, n, &edges) {
                Err(e) => Some(Violation { sig: "annealer-from|invalid-result".into(), detail: e, witness: w.clone() }),
                Ok((width, _, _)) => {
                    println!("returned tree {:?} (width {})", out.nodes, width);
                    if width > w0 {
                        Some(Violation { sig: "annealer-from|wider-than-start".into(), detail: format!("start width {}, result width {}", w0, width), witness: w.clone() })
                    } else {
                        None
                    }
                }
            },
        };
    }
    if w["kind"] == "annealer" {
        let mut st = Stats::default();
        // re-run the whole (small) choice tree of this configuration
        explore_annealer(&mut st, n, &edges, w["iterations"].as_u64()? as usize, w["adaptive"].as_bool()?, w["temp"].as_f64()?);
        return st.viols.into_values().next().map(|(_, v)| v);
    }
    begin(&sc(&w["init_script"]), 64);
    let t = guarded(|| DecompTree::random_decomp(&g, &mut ScriptedRng));
    let mut t = match t {
        Ok(t) => t,
        Err(p) => return Some(Violation { sig: "random_decomp|panic".into(), detail: p, witness: w.clone() }),
    };
    println!("initial tree {:?}", t.nodes);
    if let Some((sig, detail)) = check_state(&t, n, &edges, &g) {
        return Some(Violation { sig, detail, witness: w.clone() });
    }
    for s in w["path"].as_array()? {
        let mv = s[0].as_str()?.to_string();
        begin(&sc(&s[1]), 64);
        let r = guarded(|| apply_move(&mut t, &mv, &g));
        println!("{} {:?} -> {:?}", mv, sc(&s[1]), t.nodes);
        if let Err(p) = r {
            return Some(Violation { sig: format!("{}|panic", mv), detail: p, witness: w.clone() });
        }
        if let Some((sig, detail)) = check_state(&t, n, &edges, &g) {
            return Some(Violation { sig: format!("{}|{}", mv, sig), detail, witness: w.clone() });
        }
    }
    None
}
