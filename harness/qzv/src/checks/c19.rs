//! C19 — workload generators are reproducible and deliver the instances they promise.
//!
//! E1 over parameter grids x a seed prefix; for tiny parameters the outcome space is finite and the seed sweep is run
//! until every possible outcome has been produced (outcome saturation, reported as seen / size).

use crate::conv::*;
use crate::report::*;
use crate::sweep;
use quizx::circuit::Circuit;
use quizx::gate::*;
use quizx::graph::GraphLike;
use quizx::random_graph::EquatorialStabilizerStateBuilder;
use qzv_ref::ring::*;
use serde_json::{json, Value};
use std::collections::BTreeSet;
use std::time::Instant;

#[derive(Clone, Debug)]
pub enum Job {
    /// qubits, depth, profile index, seed
    Random(usize, usize, usize, u64),
    /// qubits, clifford depth, n_ccz, seed
    HiddenShift(usize, usize, usize, u64),
    /// qubits, depth, min weight, max weight, denominator, seed
    Gadget(usize, usize, usize, usize, usize, u64),
    /// qubits, seed
    Stab(usize, u64),
}

const PROFILES: [(&str, [f32; 5]); 9] = [
    ("uniform", [0.2, 0.2, 0.2, 0.2, 0.2]),
    ("cnot-only", [1.0, 0.0, 0.0, 0.0, 0.0]),
    ("clifford", [0.3, 0.0, 0.35, 0.35, 0.0]),
    ("no-two-qubit", [0.0, 0.0, 0.3, 0.3, 0.4]),
    ("sparse", [0.1, 0.1, 0.1, 0.1, 0.1]),
    ("t-and-cz", [0.0, 0.5, 0.0, 0.0, 0.5]),
    // unequal single-qubit probabilities (every preset of the builder sets p_h == p_s)
    ("h-no-s", [0.2, 0.2, 0.6, 0.0, 0.0]),
    ("s-no-h", [0.25, 0.25, 0.0, 0.5, 0.0]),
    ("all-different", [0.1, 0.15, 0.2, 0.25, 0.3]),
];

thread_local! {
    /// when set, every build below is answered from this script (all draws of the generators are announced: hook H6)
    static SCRIPT: std::cell::RefCell<Option<Vec<u32>>> = const { std::cell::RefCell::new(None) };
}
fn arm() {
    SCRIPT.with(|s| {
        if let Some(sc) = &*s.borrow() {
            crate::script::begin(sc, 4096);
        }
    })
}
fn current_script() -> Value {
    SCRIPT.with(|s| json!(*s.borrow()))
}

fn build_random(q: usize, depth: usize, prof: usize, seed: u64) -> Circuit {
    arm();
    let p = PROFILES[prof].1;
    Circuit::random().seed(seed).qubits(q).depth(depth).p_cnot(p[0]).p_cz(p[1]).p_h(p[2]).p_s(p[3]).p_t(p[4]).build()
}

fn distinct(qs: &[usize]) -> bool {
    let s: BTreeSet<usize> = qs.iter().copied().collect();
    s.len() == qs.len()
}

pub fn judge(st: &mut Stats, job: &Job) {
    st.inc("cases");
    st.inc("evaluations");
    let wit = || json!({"kind": "job", "job": format!("{:?}", job), "script": current_script()});
    match job {
        Job::Random(q, depth, prof, seed) => {
            let r = guarded(|| (build_random(*q, *depth, *prof, *seed), build_random(*q, *depth, *prof, *seed)));
            match r {
                Err(p) => st.violation(Violation { sig: format!("random|panic|{}", p.rsplit(" @ ").next().unwrap_or("")), detail: p, witness: wit() }),
                Ok((c1, c2)) => {
                    let p = PROFILES[*prof].1;
                    let total: f32 = p.iter().sum();
                    let allowed = |t: GType| match t {
                        CNOT => p[0] > 0.0,
                        CZ => p[1] > 0.0,
                        HAD => p[2] > 0.0,
                        S => p[3] > 0.0,
                        T => p[4] > 0.0,
                        _ => false,
                    };
                    let mut bad = None;
                    if c1 != c2 {
                        bad = Some("not-reproducible");
                    } else if c1.num_qubits() != *q {
                        bad = Some("qubit-count");
                    } else if c1.num_gates() > *depth || (total >= 0.999 && c1.num_gates() != *depth) {
                        bad = Some("depth");
                    } else if c1.gates.iter().any(|g| !allowed(g.t)) {
                        bad = Some("gate-kind-with-zero-probability");
                    } else if c1.gates.iter().any(|g| !distinct(&g.qs) || g.qs.iter().any(|&x| x >= *q) || g.qs.len() != g.t.num_qubits().unwrap_or(0)) {
                        bad = Some("qubit-arguments");
                    }
                    match bad {
                        Some(b) => st.violation(Violation { sig: format!("random|{}|{}", b, PROFILES[*prof].0), detail: c1.to_qasm(), witness: wit() }),
                        None => st.inc("nontrivial"),
                    }
                }
            }
        }
        Job::HiddenShift(q, cd, nccz, seed) => {
            let b = |s: u64| { arm(); Circuit::random_hidden_shift().seed(s).qubits(*q).clifford_depth(*cd).n_ccz(*nccz).build() };
            match guarded(|| (b(*seed), b(*seed))) {
                Err(p) => st.violation(Violation { sig: format!("hidden-shift|panic|{}", p.rsplit(" @ ").next().unwrap_or("")), detail: p, witness: wit() }),
                Ok(((c1, s1), (c2, s2))) => {
                    if c1 != c2 || s1 != s2 {
                        st.violation(Violation { sig: "hidden-shift|not-reproducible".into(), detail: "two builds with the same seed differ".into(), witness: wit() });
                        return;
                    }
                    if c1.num_qubits() != *q || s1.len() != *q || s1.iter().any(|&b| b > 1) || c1.num_gates_of_type(CCZ) != 2 * nccz || c1.gates.iter().any(|g| !distinct(&g.qs) || g.qs.iter().any(|&x| x >= *q)) {
                        st.violation(Violation { sig: "hidden-shift|shape".into(), detail: format!("{} qubits, shift {:?}, {} CCZ", c1.num_qubits(), s1, c1.num_gates_of_type(CCZ)), witness: wit() });
                        return;
                    }
                    // |<shift|C|0>|^2 = 1 exactly
                    let rc = to_rcircuit(&c1, &[]).unwrap();
                    overflow_reset();
                    let amp: Option<Zw> = qzv_ref::circuit::state::<ZwS>(&rc).filter(|_| !overflow_seen()).map(|v| {
                        let idx = s1.iter().enumerate().fold(0usize, |a, (i, &b)| a | ((b as usize) << (q - 1 - i)));
                        v[idx].to_big()
                    });
                    let amp = match amp {
                        Some(a) => a,
                        None => {
                            let v = qzv_ref::circuit::state::<Zw>(&rc).unwrap();
                            let idx = s1.iter().enumerate().fold(0usize, |a, (i, &b)| a | ((b as usize) << (q - 1 - i)));
                            v[idx].clone()
                        }
                    };
                    if !amp.norm_sqr().eqv(&Zw::one()) {
                        st.violation(Violation { sig: "hidden-shift|shift-not-certain".into(), detail: format!("|<shift|C|0>|^2 = {} for shift {:?}", amp.norm_sqr().key(), s1), witness: wit() });
                    } else {
                        st.inc("nontrivial");
                    }
                }
            }
        }
        Job::Gadget(q, depth, minw, maxw, denom, seed) => {
            let b = |s: u64| { arm(); Circuit::random_pauli_gadget().seed(s).qubits(*q).depth(*depth).min_weight(*minw).max_weight(*maxw).phase_denom(*denom).build() };
            // builder histories: the same parameters given through other setter orders, through the public fields, and on
            // a builder that held other parameters before: same seed and parameters => the same circuit
            let histories = |s: u64| -> Vec<(&'static str, Circuit)> {
                let mut v = vec![];
                arm();
                v.push(("max-then-min", Circuit::random_pauli_gadget().seed(s).qubits(*q).depth(*depth).max_weight(*maxw).min_weight(*minw).phase_denom(*denom).build()));
                arm();
                let mut bld = Circuit::random_pauli_gadget();
                bld.seed(s);
                bld.qubits = *q;
                bld.depth = *depth;
                bld.min_weight = *minw;
                bld.max_weight = *maxw;
                bld.phase_denom = *denom;
                v.push(("public-fields", bld.build()));
                arm();
                let mut bld = Circuit::random_pauli_gadget();
                bld.qubits(*q + 3).depth(1).min_weight(*q + 1).max_weight(*q + 2).phase_denom(7);
                bld.seed(s).qubits(*q).depth(*depth).max_weight(*maxw).min_weight(*minw).phase_denom(*denom);
                v.push(("re-used-builder", bld.build()));
                if minw == maxw {
                    arm();
                    v.push(("weight()", Circuit::random_pauli_gadget().seed(s).qubits(*q).depth(*depth).weight(*minw).phase_denom(*denom).build()));
                }
                v
            };
            match guarded(|| (b(*seed), b(*seed), histories(*seed))) {
                Err(p) => st.violation(Violation { sig: format!("gadget|panic|{}", p.rsplit(" @ ").next().unwrap_or("")), detail: p, witness: wit() }),
                Ok((c1, c2, hs)) => {
                    let mut bad: Option<String> = None;
                    if let Some((name, _)) = hs.iter().find(|(_, c)| *c != c1) {
                        bad = Some(format!("builder-history|{}", name));
                    } else if c1 != c2 {
                        bad = Some("not-reproducible".into());
                    } else if c1.num_qubits() != *q || c1.num_gates_of_type(ParityPhase) != *depth {
                        bad = Some("shape".into());
                    } else {
                        // the circuit is a sequence of blocks  layer ; pp ; layer^dagger
                        let gates: Vec<&Gate> = c1.gates.iter().collect();
                        let pps: Vec<usize> = (0..gates.len()).filter(|&i| gates[i].t == ParityPhase).collect();
                        let mut start = 0;
                        for &i in &pps {
                            let g = gates[i];
                            let w = g.qs.len();
                            let r = g.phase.to_rational();
                            let mult_ok = (*denom as i64) % r.denom() == 0;
                            let nonclifford_ok = !(denom % 2 == 0 && *denom >= 4) || 2 % r.denom() != 0;
                            let layer: Vec<&Gate> = gates[start..i].to_vec();
                            let after: Vec<&Gate> = gates[i + 1..(i + 1 + layer.len()).min(gates.len())].to_vec();
                            let mut want_after: Vec<Gate> = layer.iter().rev().map(|x| { let mut y = (*x).clone(); y.adjoint(); y }).collect();
                            let _ = &mut want_after;
                            if w < *minw || w > *maxw || !distinct(&g.qs) || g.qs.iter().any(|&x| x >= *q) {
                                bad = Some("weight-or-qubits".into());
                            } else if !mult_ok || g.phase.to_rational() == num::Rational64::new(0, 1) {
                                bad = Some("phase-not-multiple-of-pi/denominator".into());
                            } else if !nonclifford_ok {
                                bad = Some("clifford-phase-for-even-denominator".into());
                            } else if layer.iter().any(|l| !(l.t == HAD || l.t == XPhase) || l.qs.len() != 1 || !g.qs.contains(&l.qs[0])) {
                                bad = Some("basis-layer-shape".into());
                            } else if after.len() != layer.len() || after.iter().zip(&want_after).any(|(a, b)| **a != *b) {
                                bad = Some("basis-layer-not-undone".into());
                            }
                            start = i + 1 + layer.len();
                            if bad.is_some() {
                                break;
                            }
                        }
                        if bad.is_none() && start != gates.len() {
                            bad = Some("trailing-gates".into());
                        }
                    }
                    match bad {
                        Some(b) => st.violation(Violation { sig: format!("gadget|{}", b), detail: c1.to_qasm(), witness: wit() }),
                        None => st.inc("nontrivial"),
                    }
                }
            }
        }
        Job::Stab(q, seed) => {
            let b = |s: u64| { arm(); EquatorialStabilizerStateBuilder::new().seed(s).qubits(*q).build::<quizx::vec_graph::Graph>() };
            match guarded(|| (b(*seed), b(*seed))) {
                Err(p) => st.violation(Violation { sig: format!("stabiliser-state|panic|{}", p.rsplit(" @ ").next().unwrap_or("")), detail: p, witness: wit() }),
                Ok((g1, g2)) => {
                    if g1 != g2 {
                        st.violation(Violation { sig: "stabiliser-state|not-reproducible".into(), detail: "two builds differ".into(), witness: wit() });
                    } else if !g1.inputs().is_empty() || g1.outputs().len() != *q {
                        st.violation(Violation { sig: "stabiliser-state|arity".into(), detail: format!("{} outputs", g1.outputs().len()), witness: wit() });
                    } else {
                        match eval_graph(&g1, None) {
                            Tensor::Exact(v) => {
                                let norm = v.iter().fold(Zw::zero(), |a, x| a.add(&x.norm_sqr()));
                                if !norm.eqv(&Zw::one()) {
                                    st.violation(Violation { sig: "stabiliser-state|not-a-unit-vector".into(), detail: format!("squared norm {}", norm.key()), witness: wit() });
                                } else {
                                    st.inc("nontrivial");
                                }
                            }
                            t => st.violation(Violation { sig: "stabiliser-state|not-evaluable".into(), detail: t.show(), witness: wit() }),
                        }
                    }
                }
            }
        }
    }
}

/// E3 on one parameter point: every sequence of answers to the generator's announced draws is enumerated (the RNG is
/// replaced through hook H6), and every resulting instance is judged like a seeded one (built twice from the same script)
pub fn explore_job(st: &mut Stats, job: &Job, cap: usize) -> bool {
    crate::script::install_source();
    let mut scripts: Vec<Vec<u32>> = vec![];
    let j2 = job.clone();
    let (_, complete) = crate::script::explore(
        4096,
        usize::MAX,
        cap,
        || {
            SCRIPT.with(|s| *s.borrow_mut() = None);
            match &j2 {
                Job::Random(q, depth, prof, _) => {
                    let p = PROFILES[*prof].1;
                    let _ = Circuit::random().seed(0).qubits(*q).depth(*depth).p_cnot(p[0]).p_cz(p[1]).p_h(p[2]).p_s(p[3]).p_t(p[4]).build();
                }
                Job::HiddenShift(q, cd, nccz, _) => {
                    let _ = Circuit::random_hidden_shift().seed(0).qubits(*q).clifford_depth(*cd).n_ccz(*nccz).build();
                }
                Job::Gadget(q, depth, minw, maxw, denom, _) => {
                    let _ = Circuit::random_pauli_gadget().seed(0).qubits(*q).depth(*depth).min_weight(*minw).max_weight(*maxw).phase_denom(*denom).build();
                }
                Job::Stab(q, _) => {
                    let _ = EquatorialStabilizerStateBuilder::new().seed(0).qubits(*q).build::<quizx::vec_graph::Graph>();
                }
            }
        },
        |e| {
            st.inc("transitions");
            match e.end {
                crate::script::RunEnd::Done(()) => scripts.push(e.script),
                crate::script::RunEnd::DrawLimit => st.inc("pruned_draw_limit"),
                crate::script::RunEnd::Panic(p) => st.violation(Violation { sig: format!("generator|panic|{}", p.rsplit(" @ ").next().unwrap_or("")), detail: p, witness: json!({"kind": "job", "job": format!("{:?}", job), "script": e.script}) }),
            }
        },
    );
    st.add("scripts", scripts.len() as u64);
    let mut outcomes = BTreeSet::new();
    for sc in scripts {
        SCRIPT.with(|s| *s.borrow_mut() = Some(sc.clone()));
        if std::env::var("C19_DEBUG").is_ok() {
            eprintln!("{:?} script {:?}", job, sc);
        }
        judge(st, job);
        // distinct outcomes (vacuity check): the instance as text
        arm();
        outcomes.insert(match job {
            Job::Random(q, depth, prof, _) => build_random(*q, *depth, *prof, 0).to_qasm(),
            Job::HiddenShift(q, cd, nccz, _) => format!("{:?}", Circuit::random_hidden_shift().seed(0).qubits(*q).clifford_depth(*cd).n_ccz(*nccz).build()),
            Job::Gadget(q, depth, minw, maxw, denom, _) => format!("{:?}", Circuit::random_pauli_gadget().seed(0).qubits(*q).depth(*depth).min_weight(*minw).max_weight(*maxw).phase_denom(*denom).build()),
            Job::Stab(q, _) => format!("{:?}", EquatorialStabilizerStateBuilder::new().seed(0).qubits(*q).build::<quizx::vec_graph::Graph>()),
        });
    }
    st.add("distinct_outcomes", outcomes.len() as u64);
    SCRIPT.with(|s| *s.borrow_mut() = None);
    crate::script::remove_source();
    if !complete {
        st.inc("run_cap_hit");
    }
    complete
}

/// sweep seeds until every outcome of a tiny configuration has been produced; returns (seen, size, seeds used)
fn saturate(name: &str, size: usize, max_seeds: u64, f: impl Fn(u64) -> String) -> (usize, usize, u64, String) {
    let mut seen = BTreeSet::new();
    let mut used = 0;
    for s in 0..max_seeds {
        seen.insert(f(s));
        used = s + 1;
        if seen.len() >= size {
            break;
        }
    }
    (seen.len(), size, used, name.to_string())
}

pub fn run(rep: &mut Report) {
    rep.rule = "case = (generator, parameters, seed) from explicit grids and a seed prefix 0..S; every instance is built twice (reproducibility) and judged against the promise: parameter contracts, |<shift|C|0>|^2 = 1 and unit norm exactly in Z[omega][1/sqrt2], gadget block structure; for tiny parameters seeds are swept until every possible outcome has appeared (seen / size reported)".into();
    rep.assume("'for all seeds' is not enumerable: the StdRng stream is a black box; covered = seed prefix per parameter point, plus outcome-space saturation where the space is small; one-qubit random circuits (empty range) and odd / small hidden-shift qubit counts are inadmissible parameters");
    let quick = rep.quick();
    let seeds: u64 = if quick { 300 } else { 3000 };
    let mut jobs: Vec<Job> = vec![];
    for q in 2..=4usize {
        for depth in 0..=6usize {
            for prof in 0..PROFILES.len() {
                for s in 0..seeds {
                    jobs.push(Job::Random(q, depth, prof, s));
                }
            }
        }
    }
    for q in if quick { vec![6usize] } else { vec![6, 8] } {
        for cd in 0..=3usize {
            for nccz in 0..=2usize {
                for s in 0..(if quick { 25 } else { 200 }) {
                    jobs.push(Job::HiddenShift(q, cd, nccz, s));
                }
            }
        }
    }
    for q in 2..=4usize {
        for minw in 1..=q {
            for maxw in minw..=q {
                for denom in 1..=8usize {
                    for s in 0..(if quick { 30 } else { 300 }) {
                        jobs.push(Job::Gadget(q, 3, minw, maxw, denom, s));
                    }
                }
            }
        }
    }
    for q in 1..=4usize {
        for s in 0..(if quick { 500 } else { 5000 }) {
            jobs.push(Job::Stab(q, s));
        }
    }
    let t0 = Instant::now();
    let stats = sweep(&jobs, |st, i, job| {
        watch_begin(i as u64, 0);
        judge(st, job);
        st.sample(1, || json!(format!("{:?}", job)));
        watch_end();
    });
    rep.absorb("parameter grids x seed prefix", &format!("random circuits (q 2..4, depth 0..6, 6 probability profiles incl. zeros), hidden shift (q 6{}, Clifford depth 0..3, CCZ 0..2), Pauli gadgets (q 2..4, all weight ranges, denominators 1..8), stabiliser states (q 1..4) x seeds 0..S", if quick { "" } else { ",8" }), false, Some(format!("seed prefix S = {} (random), fewer for the expensive generators: not all seeds", seeds)), t0, stats);
    // E3: every answer sequence of the generators' draws on small parameter points
    {
        if let Err(e) = crate::script::calibrate() {
            rep.machinery_errors.push(format!("scripted RNG calibration failed: {}", e));
            return;
        }
        let t0 = Instant::now();
        let mut pts: Vec<Job> = vec![];
        for prof in 0..PROFILES.len() {
            for (q, depth) in if quick { vec![(2usize, 3usize), (3, 2), (4, 1), (2, 4)] } else { vec![(2, 5), (3, 3), (4, 3), (5, 2), (3, 4)] } {
                pts.push(Job::Random(q, depth, prof, 0));
            }
        }
        for (cd, nccz) in if quick { vec![(0usize, 0usize), (1, 0), (0, 1), (2, 0)] } else { vec![(0, 0), (1, 0), (0, 1), (2, 0), (1, 1), (3, 0)] } {
            pts.push(Job::HiddenShift(6, cd, nccz, 0));
        }
        for q in 2..=3usize {
            for minw in 1..=q {
                for maxw in minw..=q {
                    for denom in if quick { vec![1usize, 2, 3, 4, 6] } else { vec![1, 2, 3, 4, 5, 6, 8] } {
                        pts.push(Job::Gadget(q, 1, minw, maxw, denom, 0));
                    }
                }
            }
        }
        pts.push(Job::Gadget(2, 2, 1, 2, 4, 0));
        if !quick {
            pts.push(Job::Gadget(3, 2, 2, 2, 4, 0));
            pts.push(Job::Gadget(3, 2, 1, 3, 3, 0));
            pts.push(Job::Gadget(4, 1, 1, 4, 4, 0));
            pts.push(Job::Gadget(4, 1, 2, 3, 8, 0));
        }
        for q in 1..=(if quick { 4usize } else { 5 }) {
            pts.push(Job::Stab(q, 0));
        }
        let results: Vec<(Stats, bool)> = {
            use rayon::prelude::*;
            pts.par_iter()
                .map(|job| {
                    let mut st = Stats::default();
                    let c = explore_job(&mut st, job, 2_000_000);
                    st.sample(1, || json!(format!("{:?}", job)));
                    (st, c)
                })
                .collect()
        };
        let complete = results.iter().all(|r| r.1);
        let stats = results.into_iter().map(|r| r.0).fold(Stats::default(), Stats::merge);
        rep.absorb("every draw enumerated (E3)", &format!("{} parameter points (random circuits: 9 probability profiles x small (qubits, depth); hidden shift on 6 qubits with small Clifford depth / CCZ count; one- and two-gadget circuits on 2..4 qubits, every weight range, several denominators; stabiliser states): the generator's RNG is replaced and EVERY sequence of answers to its announced draws is run, every instance judged against the promise and rebuilt from the same answers", pts.len()), complete, if complete { None } else { Some("run cap 2000000 per point".into()) }, t0, stats);
    }
    // outcome saturation
    let t0 = Instant::now();
    let mut st = Stats::default();
    let mut sat = vec![];
    // one random gate on 2 qubits, uniform: CNOT x2, CZ x2 (ordered arguments), H, S, T x2 qubits = 10 outcomes
    sat.push(saturate("random q=2 depth=1 uniform", 10, 5000, |s| build_random(2, 1, 0, s).to_qasm()));
    // two CNOT-only gates on 3 qubits: 6 x 6 = 36 outcomes
    sat.push(saturate("random q=3 depth=2 cnot-only", 36, 20000, |s| build_random(3, 2, 1, s).to_qasm()));
    // stabiliser states on 2 qubits: 3 x 3 phases x 2 edge choices = 18
    sat.push(saturate("stabiliser states q=2", 18, 5000, |s| format!("{:?}", EquatorialStabilizerStateBuilder::new().seed(s).qubits(2).build::<quizx::vec_graph::Graph>())));
    // stabiliser states on 3 qubits: 27 x 8 = 216
    sat.push(saturate("stabiliser states q=3", 216, 40000, |s| format!("{:?}", EquatorialStabilizerStateBuilder::new().seed(s).qubits(3).build::<quizx::vec_graph::Graph>())));
    // one weight-1 gadget on 2 qubits with denominator 4: 2 qubits x 3 bases x 4 phases (1/4,3/4,5/4,7/4) = 24
    sat.push(saturate("gadget q=2 weight=1 denom=4 depth=1", 24, 20000, |s| format!("{:?}", Circuit::random_pauli_gadget().seed(s).qubits(2).depth(1).weight(1).phase_denom(4).build())));
    for (seen, size, used, name) in &sat {
        st.inc("cases");
        st.add("evaluations", *used);
        if seen > size {
            st.violation(Violation { sig: format!("saturation|more-outcomes-than-possible|{}", name), detail: format!("{} distinct outcomes, the promised space has {}", seen, size), witness: json!({"kind": "saturation", "name": name}) });
        } else if seen == size {
            st.inc("nontrivial");
        }
    }
    // every outcome produced during saturation is also judged
    for s in 0..(if quick { 2000u64 } else { 20000 }) {
        judge(&mut st, &Job::Random(2, 1, 0, s));
        judge(&mut st, &Job::Stab(3, s));
        judge(&mut st, &Job::Gadget(2, 1, 1, 1, 4, s));
    }
    rep.extra.insert("outcome_saturation".into(), json!(sat.iter().map(|(seen, size, used, name)| json!({"configuration": name, "distinct_outcomes_seen": seen, "outcome_space": size, "seeds_used": used})).collect::<Vec<_>>()));
    rep.absorb("outcome saturation", "tiny configurations whose outcome space is computable: seeds swept until every outcome has appeared; more outcomes than the promised space is a violation", sat.iter().all(|s| s.0 == s.1), if sat.iter().all(|s| s.0 == s.1) { None } else { Some("some outcome spaces were not saturated within the seed budget".into()) }, t0, st);
}

pub fn replay(w: &Value) -> Option<Violation> {
    // jobs are tiny: parse the Debug form back
    let s = w["job"].as_str()?;
    let nums: Vec<u64> = s.split(|c: char| !c.is_ascii_digit()).filter(|x| !x.is_empty()).map(|x| x.parse().unwrap()).collect();
    let job = if s.starts_with("Random") {
        Job::Random(nums[0] as usize, nums[1] as usize, nums[2] as usize, nums[3])
    } else if s.starts_with("HiddenShift") {
        Job::HiddenShift(nums[0] as usize, nums[1] as usize, nums[2] as usize, nums[3])
    } else if s.starts_with("Gadget") {
        Job::Gadget(nums[0] as usize, nums[1] as usize, nums[2] as usize, nums[3] as usize, nums[4] as usize, nums[5])
    } else {
        Job::Stab(nums[0] as usize, nums[1])
    };
    let mut st = Stats::default();
    if let Some(sc) = w["script"].as_array() {
        crate::script::install_source();
        SCRIPT.with(|s| *s.borrow_mut() = Some(sc.iter().map(|x| x.as_u64().unwrap() as u32).collect()));
        judge(&mut st, &job);
        SCRIPT.with(|s| *s.borrow_mut() = None);
        crate::script::remove_source();
    } else {
        judge(&mut st, &job);
    }
    st.viols.into_values().next().map(|(_, v)| v)
}
