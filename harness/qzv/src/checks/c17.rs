//! C17 — F2 matrix routines: rank, (fully) reduced echelon form for every block size, faithful row-operation
//! proxy, inverse, null space, transpose / stack / multiply laws.  Oracle: brute-force F2 linear algebra on bit rows.

use crate::report::*;
use crate::sweep_range;
use quizx::linalg::*;
use serde_json::{json, Value};
use std::time::Instant;

type Rows = Vec<u32>; // bit j of row i = entry (i, j)

fn to_mat(rows: &Rows, cols: usize) -> Mat2 {
    Mat2::new(rows.iter().map(|&r| (0..cols).map(|j| ((r >> j) & 1) as u8).collect()).collect())
}
fn from_mat(m: &Mat2) -> (Rows, usize) {
    let c = m.num_cols();
    ((0..m.num_rows()).map(|i| (0..c).fold(0u32, |acc, j| acc | ((m[i][j] as u32 & 1) << j))).collect(), c)
}
fn entries_binary(m: &Mat2) -> bool {
    (0..m.num_rows()).all(|i| (0..m.num_cols()).all(|j| m[i][j] <= 1))
}

/// brute-force rank: log2 of the number of distinct row combinations
fn brute_rank(rows: &Rows) -> usize {
    let mut span = std::collections::BTreeSet::new();
    for mask in 0..(1u32 << rows.len()) {
        let mut v = 0u32;
        for (i, r) in rows.iter().enumerate() {
            if (mask >> i) & 1 == 1 {
                v ^= r;
            }
        }
        span.insert(v);
    }
    span.len().trailing_zeros() as usize
}
fn row_space(rows: &Rows) -> std::collections::BTreeSet<u32> {
    let mut span = std::collections::BTreeSet::new();
    for mask in 0..(1u32 << rows.len()) {
        let mut v = 0u32;
        for (i, r) in rows.iter().enumerate() {
            if (mask >> i) & 1 == 1 {
                v ^= r;
            }
        }
        span.insert(v);
    }
    span
}
/// product over F2: a is r x k (rows as bitsets over k), b is k x c
fn mul(a: &Rows, b: &Rows) -> Rows {
    a.iter()
        .map(|&ra| {
            let mut v = 0u32;
            for (i, rb) in b.iter().enumerate() {
                if (ra >> i) & 1 == 1 {
                    v ^= rb;
                }
            }
            v
        })
        .collect()
}
fn transpose(a: &Rows, cols: usize) -> Rows {
    (0..cols).map(|j| a.iter().enumerate().fold(0u32, |acc, (i, r)| acc | (((r >> j) & 1) << i))).collect()
}

/// echelon: pivots strictly right-moving, zero rows last, zeros below pivots; reduced: zeros above too
fn echelon(rows: &Rows, reduced: bool) -> Result<(), String> {
    let mut last: i64 = -1;
    let mut seen_zero = false;
    let mut pivots = vec![];
    for (i, &r) in rows.iter().enumerate() {
        if r == 0 {
            seen_zero = true;
            continue;
        }
        if seen_zero {
            return Err(format!("non-zero row {} below a zero row", i));
        }
        let p = r.trailing_zeros() as i64;
        if p <= last {
            return Err(format!("pivot of row {} (col {}) not to the right of the previous pivot (col {})", i, p, last));
        }
        last = p;
        pivots.push((i, p as u32));
    }
    for &(i, p) in &pivots {
        for (k, &r) in rows.iter().enumerate() {
            if k != i && (r >> p) & 1 == 1 && (k > i || reduced) {
                return Err(format!("column {} of pivot row {} is not cleared in row {}", p, i, k));
            }
        }
    }
    Ok(())
}

fn wit(rows: &Rows, cols: usize, what: &str, full: bool, bs: usize) -> Value {
    json!({"kind": "matrix", "rows": rows, "cols": cols, "what": what, "full": full, "blocksize": bs, "legend": "row i as integer, bit j = entry (i,j)"})
}

pub fn judge(st: &mut Stats, rows: &Rows, cols: usize, companion: &Rows, ccols: usize) {
    st.inc("cases");
    let r = rows.len();
    let m = to_mat(rows, cols);
    let rank = brute_rank(rows);
    if elim_rank(rows) != rank {
        panic!("MACHINERY: elimination-based reference rank disagrees with the brute-force rank");
    }
    let space = row_space(rows);
    let shape = format!("{}x{}", r, cols);
    for full in [false, true] {
        for bs in 1..=cols {
            st.inc("evaluations");
            let mut m1 = m.clone();
            let mut g = Mat2::id(r);
            let got = match guarded(|| m1.gauss_x(full, bs, &mut g)) {
                Err(p) => {
                    st.violation(Violation { sig: format!("gauss_x|panic|{}", last_panic_site()), detail: p, witness: wit(rows, cols, "gauss_x", full, bs) });
                    continue;
                }
                Ok(k) => k,
            };
            let (e, _) = from_mat(&m1);
            let (gr, _) = from_mat(&g);
            let cls = format!("full={}|bs{}", full, if bs == cols { "=cols".to_string() } else if bs == 1 { "=1".into() } else { "=mid".into() });
            if !entries_binary(&m1) {
                st.violation(Violation { sig: format!("gauss_x|non-binary-entry|{}", cls), detail: format!("{}", m1), witness: wit(rows, cols, "gauss_x", full, bs) });
            } else if got != rank {
                st.violation(Violation { sig: format!("gauss_x|wrong-rank|{}", cls), detail: format!("{} matrix: returned {}, true rank {}", shape, got, rank), witness: wit(rows, cols, "gauss_x", full, bs) });
            } else if let Err(why) = echelon(&e, full) {
                st.violation(Violation { sig: format!("gauss_x|not-{}echelon|{}", if full { "reduced-" } else { "" }, cls), detail: format!("{}\n{}", why, m1), witness: wit(rows, cols, "gauss_x", full, bs) });
            } else if row_space(&e) != space {
                st.violation(Violation { sig: format!("gauss_x|row-space-changed|{}", cls), detail: format!("{}", m1), witness: wit(rows, cols, "gauss_x", full, bs) });
            } else if mul(&gr, rows) != e {
                st.violation(Violation { sig: format!("gauss_x|proxy-identity-mismatch|{}", cls), detail: "the operations recorded on an identity matrix do not reproduce the reduced matrix".into(), witness: wit(rows, cols, "gauss_x", full, bs) });
            } else {
                // an unrelated second object must be transformed by exactly the same operations
                let mut m2 = m.clone();
                let mut x = to_mat(companion, ccols);
                let _ = guarded(|| m2.gauss_x(full, bs, &mut x));
                let (xr, _) = from_mat(&x);
                if m2 != m1 || xr != mul(&gr, companion) {
                    st.violation(Violation { sig: format!("gauss_x|proxy-other-object|{}", cls), detail: "a second proxy object was not transformed as g * x".into(), witness: wit(rows, cols, "gauss_x", full, bs) });
                } else if rank > 0 && rank < r.min(cols) + 1 {
                    st.inc("nontrivial");
                }
            }
        }
        // default block size entry point
        st.inc("evaluations");
        let mut m1 = m.clone();
        match guarded(|| m1.gauss(full)) {
            Err(p) => st.violation(Violation { sig: format!("gauss|panic|{}", last_panic_site()), detail: p, witness: wit(rows, cols, "gauss", full, 3) }),
            Ok(k) => {
                let (e, _) = from_mat(&m1);
                if k != rank || echelon(&e, full).is_err() || row_space(&e) != space {
                    st.violation(Violation { sig: format!("gauss|wrong|full={}", full), detail: format!("rank {} (true {}), result\n{}", k, rank, m1), witness: wit(rows, cols, "gauss", full, 3) });
                }
            }
        }
    }
    st.inc("evaluations");
    match guarded(|| m.rank()) {
        Ok(k) if k == rank => {}
        Ok(k) => st.violation(Violation { sig: "rank|wrong".into(), detail: format!("rank() = {}, true rank {}", k, rank), witness: wit(rows, cols, "rank", false, 0) }),
        Err(p) => st.violation(Violation { sig: "rank|panic".into(), detail: p, witness: wit(rows, cols, "rank", false, 0) }),
    }
    // inverse
    st.inc("evaluations");
    match guarded(|| m.inverse()) {
        Err(p) => st.violation(Violation { sig: format!("inverse|panic|{}", last_panic_site()), detail: p, witness: wit(rows, cols, "inverse", true, 3) }),
        Ok(inv) => {
            let invertible = r == cols && rank == r;
            match inv {
                None if invertible => st.violation(Violation { sig: "inverse|none-for-invertible".into(), detail: format!("{}", m), witness: wit(rows, cols, "inverse", true, 3) }),
                Some(_) if !invertible => st.violation(Violation { sig: "inverse|some-for-singular".into(), detail: format!("{}", m), witness: wit(rows, cols, "inverse", true, 3) }),
                Some(i) => {
                    let (ir, _) = from_mat(&i);
                    let id: Rows = (0..r).map(|k| 1u32 << k).collect();
                    if i.num_rows() != r || i.num_cols() != r || mul(&ir, rows) != id || mul(rows, &ir) != id {
                        st.violation(Violation { sig: "inverse|not-two-sided".into(), detail: format!("m =\n{}\ninverse() =\n{}", m, i), witness: wit(rows, cols, "inverse", true, 3) });
                    } else {
                        st.inc("nontrivial");
                    }
                }
                None => {}
            }
        }
    }
    // null space
    st.inc("evaluations");
    match guarded(|| m.nullspace()) {
        Err(p) => st.violation(Violation { sig: format!("nullspace|panic|{}", last_panic_site()), detail: p, witness: wit(rows, cols, "nullspace", true, 3) }),
        Ok(ns) => {
            let vecs: Vec<u32> = ns.iter().map(|v| from_mat(v).0.first().copied().unwrap_or(0)).collect();
            let shape_ok = ns.iter().all(|v| v.num_rows() == 1 && v.num_cols() == cols);
            let annihilated = vecs.iter().all(|&v| rows.iter().all(|&rr| (rr & v).count_ones() % 2 == 0));
            let independent = brute_rank(&vecs) == vecs.len();
            if !shape_ok {
                st.violation(Violation { sig: "nullspace|shape".into(), detail: "vectors are not 1 x cols".into(), witness: wit(rows, cols, "nullspace", true, 3) });
            } else if vecs.len() != cols - rank {
                st.violation(Violation { sig: "nullspace|count".into(), detail: format!("{} vectors, cols - rank = {}", vecs.len(), cols - rank), witness: wit(rows, cols, "nullspace", true, 3) });
            } else if !annihilated {
                st.violation(Violation { sig: "nullspace|not-annihilated".into(), detail: format!("m =\n{} vectors {:?}", m, vecs), witness: wit(rows, cols, "nullspace", true, 3) });
            } else if !independent {
                st.violation(Violation { sig: "nullspace|dependent".into(), detail: format!("vectors {:?}", vecs), witness: wit(rows, cols, "nullspace", true, 3) });
            }
        }
    }
    // algebraic laws with the companion (r x ccols)
    st.inc("evaluations");
    let t = m.transpose();
    let (tr, _) = from_mat(&t);
    if t.num_rows() != cols || t.num_cols() != r || tr != transpose(rows, cols) || t.transpose() != m {
        st.violation(Violation { sig: "transpose|wrong".into(), detail: format!("{}", t), witness: wit(rows, cols, "transpose", false, 0) });
    }
    let x = to_mat(companion, ccols);
    // hstack: same number of rows
    match guarded(|| m.hstack(&x)) {
        Err(p) => st.violation(Violation { sig: "hstack|panic".into(), detail: p, witness: wit(rows, cols, "hstack", false, 0) }),
        Ok(h) => {
            let want: Rows = rows.iter().zip(companion).map(|(&a, &b)| a | (b << cols)).collect();
            if h.num_rows() != r || h.num_cols() != cols + ccols || from_mat(&h).0 != want {
                st.violation(Violation { sig: "hstack|wrong".into(), detail: format!("{}", h), witness: wit(rows, cols, "hstack", false, 0) });
            }
        }
    }
    // vstack with the transpose-compatible partner: x^T * something has cols... use m itself and its echelon twin
    match guarded(|| m.vstack(&m)) {
        Err(p) => st.violation(Violation { sig: "vstack|panic".into(), detail: p, witness: wit(rows, cols, "vstack", false, 0) }),
        Ok(v) => {
            let mut want = rows.clone();
            want.extend(rows.iter());
            if v.num_rows() != 2 * r || v.num_cols() != cols || from_mat(&v).0 != want {
                st.violation(Violation { sig: "vstack|wrong".into(), detail: format!("{}", v), witness: wit(rows, cols, "vstack", false, 0) });
            }
        }
    }
    // elementary row and column operations against their definitions on bit rows (every ordered pair of indices)
    for a in 0..r {
        for b in 0..r {
            if a == b {
                continue;
            }
            let got = guarded(|| {
                let (mut x, mut y) = (m.clone(), m.clone());
                x.row_add(a, b);
                y.row_swap(a, b);
                (from_mat(&x).0, from_mat(&y).0)
            });
            let mut wa = rows.clone();
            wa[b] ^= rows[a];
            let mut ws = rows.clone();
            ws.swap(a, b);
            match got {
                Err(p) => st.violation(Violation { sig: "row-ops|panic".into(), detail: p, witness: wit(rows, cols, "row_ops", false, 0) }),
                Ok((ga, gs)) => {
                    if ga != wa || gs != ws {
                        st.violation(Violation { sig: format!("row-ops|wrong|{}", if ga != wa { "row_add" } else { "row_swap" }), detail: format!("rows {} and {}", a, b), witness: wit(rows, cols, "row_ops", false, 0) });
                    }
                }
            }
        }
    }
    for a in 0..cols {
        for b in 0..cols {
            if a == b {
                continue;
            }
            let got = guarded(|| {
                let (mut x, mut y) = (m.clone(), m.clone());
                x.col_add(a, b);
                y.col_swap(a, b);
                (from_mat(&x).0, from_mat(&y).0)
            });
            // column a added to column b: bit b of every row ^= bit a; swap: exchange bits a and b
            let wa: Rows = rows.iter().map(|&x| x ^ (((x >> a) & 1) << b)).collect();
            let ws: Rows = rows.iter().map(|&x| { let (ba, bb) = ((x >> a) & 1, (x >> b) & 1); (x & !(1 << a) & !(1 << b)) | (ba << b) | (bb << a) }).collect();
            match got {
                Err(p) => st.violation(Violation { sig: "col-ops|panic".into(), detail: p, witness: wit(rows, cols, "col_ops", false, 0) }),
                Ok((ga, gs)) => {
                    if ga != wa || gs != ws {
                        st.violation(Violation { sig: format!("col-ops|wrong|{}", if ga != wa { "col_add" } else { "col_swap" }), detail: format!("columns {} and {}", a, b), witness: wit(rows, cols, "col_ops", false, 0) });
                    }
                }
            }
        }
    }
    // multiplication: m^T (cols x r) * x (r x ccols), and (AB)^T = B^T A^T
    match guarded(|| &t * &x) {
        Err(p) => st.violation(Violation { sig: "mul|panic".into(), detail: p, witness: wit(rows, cols, "mul", false, 0) }),
        Ok(p) => {
            let want = mul(&transpose(rows, cols), companion);
            let law = guarded(|| &x.transpose() * &m).map(|q| q == p.transpose()).unwrap_or(false);
            if p.num_rows() != cols || p.num_cols() != ccols || from_mat(&p).0 != want {
                st.violation(Violation { sig: "mul|wrong".into(), detail: format!("{}", p), witness: wit(rows, cols, "mul", false, 0) });
            } else if !law {
                st.violation(Violation { sig: "mul|transpose-law".into(), detail: "(AB)^T != B^T A^T".into(), witness: wit(rows, cols, "mul", false, 0) });
            }
            // every spelling of the product (operands by reference or by value) is the same matrix
            for (name, q) in [("ref*value", guarded(|| &t * x.clone())), ("value*ref", guarded(|| t.clone() * &x)), ("value*value", guarded(|| t.clone() * x.clone()))] {
                match q {
                    Err(e) => st.violation(Violation { sig: format!("mul|panic|{}", name), detail: e, witness: wit(rows, cols, "mul", false, 0) }),
                    Ok(q) => {
                        if q != p {
                            st.violation(Violation { sig: format!("mul|spelling-differs|{}", name), detail: format!("{} gives\n{}instead of\n{}", name, q, p), witness: wit(rows, cols, "mul", false, 0) });
                        }
                    }
                }
            }
        }
    }
}

/// independent elimination on bit rows (used where row-space enumeration is infeasible; validated against the
/// brute-force rank on every small matrix the check enumerates)
fn elim_rank(rows: &[u32]) -> usize {
    let mut rows = rows.to_vec();
    let mut rank = 0;
    for bit in 0..32 {
        if let Some(p) = (rank..rows.len()).find(|&r| (rows[r] >> bit) & 1 == 1) {
            rows.swap(rank, p);
            for r in 0..rows.len() {
                if r != rank && (rows[r] >> bit) & 1 == 1 {
                    rows[r] ^= rows[rank];
                }
            }
            rank += 1;
        }
    }
    rank
}

/// large matrices (up to 24x24): same judgements with elimination-based oracles
pub fn judge_big(st: &mut Stats, rows: &Rows, cols: usize) {
    st.inc("cases");
    let r = rows.len();
    let m = to_mat(rows, cols);
    let rank = elim_rank(rows);
    for full in [false, true] {
        for bs in 1..=cols {
            st.inc("evaluations");
            let mut m1 = m.clone();
            let mut g = Mat2::id(r);
            let got = match guarded(|| m1.gauss_x(full, bs, &mut g)) {
                Err(p) => {
                    st.violation(Violation { sig: format!("gauss_x|panic|big|{}", last_panic_site()), detail: p, witness: wit(rows, cols, "gauss_x", full, bs) });
                    continue;
                }
                Ok(k) => k,
            };
            let (e, _) = from_mat(&m1);
            let (gr, _) = from_mat(&g);
            let cls = format!("big|full={}|bs{}", full, if bs == cols { "=cols".to_string() } else if bs == 1 { "=1".into() } else if cols % bs == 0 { "=divisor".into() } else { "=mid".into() });
            let mut both = rows.clone();
            both.extend(e.iter());
            if got != rank {
                st.violation(Violation { sig: format!("gauss_x|wrong-rank|{}", cls), detail: format!("returned {}, true rank {}", got, rank), witness: wit(rows, cols, "gauss_x", full, bs) });
            } else if let Err(why) = echelon(&e, full) {
                st.violation(Violation { sig: format!("gauss_x|not-{}echelon|{}", if full { "reduced-" } else { "" }, cls), detail: why, witness: wit(rows, cols, "gauss_x", full, bs) });
            } else if elim_rank(&e) != rank || elim_rank(&both) != rank {
                st.violation(Violation { sig: format!("gauss_x|row-space-changed|{}", cls), detail: "the result does not span the same row space".into(), witness: wit(rows, cols, "gauss_x", full, bs) });
            } else if mul(&gr, rows) != e || elim_rank(&gr) != r {
                st.violation(Violation { sig: format!("gauss_x|proxy-identity-mismatch|{}", cls), detail: "recorded operations do not reproduce the result (or are not invertible)".into(), witness: wit(rows, cols, "gauss_x", full, bs) });
            } else {
                st.inc("nontrivial");
            }
        }
    }
    st.inc("evaluations");
    match guarded(|| (m.rank(), m.inverse(), m.nullspace())) {
        Err(p) => st.violation(Violation { sig: format!("big|panic|{}", last_panic_site()), detail: p, witness: wit(rows, cols, "inverse", true, 3) }),
        Ok((rk, inv, ns)) => {
            let id: Rows = (0..r).map(|k| 1u32 << k).collect();
            let invertible = r == cols && rank == r;
            let vecs: Vec<u32> = ns.iter().map(|v| from_mat(v).0.first().copied().unwrap_or(0)).collect();
            if rk != rank {
                st.violation(Violation { sig: "rank|wrong|big".into(), detail: format!("{} vs {}", rk, rank), witness: wit(rows, cols, "rank", false, 0) });
            } else if inv.is_some() != invertible || inv.as_ref().map(|i| { let (ir, _) = from_mat(i); mul(&ir, rows) != id || mul(rows, &ir) != id }).unwrap_or(false) {
                st.violation(Violation { sig: "inverse|wrong|big".into(), detail: format!("invertible = {}, inverse() is_some = {}", invertible, inv.is_some()), witness: wit(rows, cols, "inverse", true, 3) });
            } else if vecs.len() != cols - rank || elim_rank(&vecs) != vecs.len() || !vecs.iter().all(|&v| rows.iter().all(|&rr| (rr & v).count_ones() % 2 == 0)) {
                st.violation(Violation { sig: "nullspace|wrong|big".into(), detail: format!("{} vectors, cols - rank = {}", vecs.len(), cols - rank), witness: wit(rows, cols, "nullspace", true, 3) });
            }
        }
    }
}

/// structured families up to 24x24 (a fixed, enumerated list — no sampling)
fn big_family(n: usize) -> Vec<Rows> {
    let mut out: Vec<Rows> = vec![];
    let mask = if n == 32 { u32::MAX } else { (1u32 << n) - 1 };
    // rotations of the identity, the reversal, and each with one or two extra row additions
    for rot in 0..n {
        let p: Rows = (0..n).map(|i| 1u32 << ((i + rot) % n)).collect();
        out.push(p.clone());
        for a in [0usize, n / 2, n - 1] {
            for b in [1usize, n / 3, n - 2] {
                if a != b {
                    let mut q = p.clone();
                    q[a] ^= q[b];
                    out.push(q.clone());
                    q[b] ^= q[(a + b) % n];
                    out.push(q);
                }
            }
        }
    }
    out.push((0..n).map(|i| 1u32 << (n - 1 - i)).collect());
    // triangular, band and checker patterns
    out.push((0..n).map(|i| (mask >> i) << i & mask).collect());
    out.push((0..n).map(|i| mask >> (n - 1 - i)).collect());
    for w in 1..=4usize {
        out.push((0..n).map(|i| (((1u32 << w) - 1) << i) & mask).collect());
        out.push((0..n).map(|i| ((((1u32 << w) - 1) << i) | 1) & mask).collect());
    }
    out.push((0..n).map(|i| if i % 2 == 0 { 0x55555555 & mask } else { 0xAAAAAAAA & mask }).collect());
    // block diagonal: every 3x3 matrix repeated along the diagonal (colliding chunks at block size 3 and its multiples)
    if n % 3 == 0 {
        for b in 0..512u32 {
            let blk = [b & 7, (b >> 3) & 7, (b >> 6) & 7];
            out.push((0..n).map(|i| blk[i % 3] << (3 * (i / 3))).collect());
            // the same pattern repeated across ALL column blocks (identical chunks everywhere)
            out.push((0..n).map(|i| { let mut r = 0u32; for k in 0..n / 3 { r |= blk[i % 3] << (3 * k); } r & if i % 2 == 0 { mask } else { mask >> 3 } }).collect());
        }
    }
    // rank-deficient: duplicated and zero rows
    let mut d: Rows = (0..n).map(|i| 1u32 << i).collect();
    d[n - 1] = d[0];
    d[n / 2] = 0;
    out.push(d);
    out
}

fn decode(idx: u64, r: usize, c: usize) -> Rows {
    (0..r).map(|i| ((idx >> (i * c)) & ((1 << c) - 1)) as u32).collect()
}

pub fn run(rep: &mut Report) {
    rep.rule = "case = one 0/1 matrix (all matrices of a shape enumerated), judged for every block size 1..cols and both reduction modes; oracle = brute-force row-space enumeration; non-trivial = rank strictly between 0 and full / invertible matrix inverted".into();
    rep.assume("shapes with zero rows or zero columns are excluded (a Mat2 cannot represent the column count of a 0-row matrix)");
    let quick = rep.quick();
    let mut shapes: Vec<(usize, usize)> = vec![];
    for r in 1..=4 {
        for c in 1..=4 {
            shapes.push((r, c));
        }
    }
    shapes.push((3, 5));
    shapes.push((5, 3));
    if quick {
        shapes.push((4, 5));
        shapes.push((5, 4));
    } else {
        shapes.push((4, 5));
        shapes.push((5, 4));
        shapes.push((6, 4));
        shapes.push((3, 7));
        shapes.push((2, 7));
        shapes.push((7, 2));
    }
    for (r, c) in shapes {
        let t0 = Instant::now();
        let n = 1u64 << (r * c);
        let stats = sweep_range(n, |st, idx| {
            watch_begin(idx, (r * 10 + c) as u64);
            let rows = decode(idx, r, c);
            // companion: an unrelated r x 2 matrix derived deterministically from the index
            let comp: Rows = (0..r).map(|i| (((idx.wrapping_mul(0x9E3779B97F4A7C15) >> (2 * i + 7)) & 3) as u32) ^ (i as u32 & 1)).collect();
            judge(st, &rows, c, &comp, 2);
            st.sample(1, || json!({"rows": rows, "cols": c}));
            watch_end();
        });
        rep.absorb(&format!("all {}x{}", r, c), &format!("all 2^{} matrices of shape {}x{}, every block size 1..{}, both modes", r * c, r, c, c), true, None, t0, stats);
    }
    run_big(rep, quick);
    // 5x5 in thorough: all matrices (33.5 M)
    if !quick {
        let t0 = Instant::now();
        let n = 1u64 << 25;
        let stats = sweep_range(n, |st, idx| {
            let rows = decode(idx, 5, 5);
            let comp: Rows = (0..5).map(|i| ((idx >> (3 * i)) & 3) as u32).collect();
            judge(st, &rows, 5, &comp, 2);
        });
        rep.absorb("all 5x5", "all 2^25 matrices of shape 5x5, every block size, both modes", true, None, t0, stats);
    }
    // structured larger matrices whose chunks collide: every sequence of rows from a small alphabet
    for (r, c, alpha) in if quick { vec![(5usize, 6usize, vec![0b000111u32, 0b111000, 0b101101, 0b000101, 0])] } else { vec![(6, 6, vec![0b000111u32, 0b111000, 0b101101, 0b000101, 0b110110, 0]), (7, 8, vec![0b00001111u32, 0b11110000, 0b10101010, 0b00001010, 0]), (6, 9, vec![0b000000111u32, 0b111000111, 0b101101101, 0b000101000, 0b111111111])] } {
        let t0 = Instant::now();
        let k = alpha.len() as u64;
        let n = k.pow(r as u32);
        let stats = sweep_range(n, |st, mut idx| {
            let mut rows = vec![];
            let id0 = idx;
            for _ in 0..r {
                rows.push(alpha[(idx % k) as usize]);
                idx /= k;
            }
            let comp: Rows = (0..r).map(|i| ((id0 >> i) & 3) as u32).collect();
            judge(st, &rows, c, &comp, 2);
        });
        rep.absorb(&format!("structured {}x{}", r, c), &format!("every {}-row matrix whose rows come from a {}-row alphabet with colliding chunks ({} matrices), every block size 1..{}", r, alpha.len(), n, c), true, None, t0, stats);
    }
}

fn run_big(rep: &mut Report, quick: bool) {
    for n in if quick { vec![12usize] } else { vec![12, 18, 24] } {
        let t0 = Instant::now();
        let fam = big_family(n);
        let stats = crate::sweep(&fam, |st, i, rows| {
            watch_begin(i as u64, 99);
            judge_big(st, rows, n);
            watch_end();
        });
        rep.absorb(&format!("structured {}x{}", n, n), &format!("{} structured {}x{} matrices (rotated identities with extra row additions, triangular, band, checker, block-diagonal and all-blocks copies of every 3x3 matrix, rank-deficient), every block size 1..{}, both modes; elimination-based oracles validated against brute force on every small matrix", fam.len(), n, n, n), true, None, t0, stats);
    }
}

pub fn replay(w: &Value) -> Option<Violation> {
    let rows: Rows = w["rows"].as_array()?.iter().map(|x| x.as_u64().unwrap() as u32).collect();
    let cols = w["cols"].as_u64()? as usize;
    let comp: Rows = (0..rows.len()).map(|i| (i as u32 * 3 + 1) & 3).collect();
    let mut st = Stats::default();
    if rows.len() > 8 {
        judge_big(&mut st, &rows, cols);
    } else {
        judge(&mut st, &rows, cols, &comp, 2);
    }
    println!("{}", to_mat(&rows, cols));
    let what = w["what"].as_str().unwrap_or("");
    st.viols.retain(|k, _| k.starts_with(what));
    st.viols.into_values().next().map(|(_, v)| v)
}
