//! C20 — detection webs returned for a Pauli diagram are valid, independent and complete, for every numbering
//! of the vertices; inputs / outputs are restored.
//!
//! E1: all diagrams with <= s spiders (Z/X, phases 0/pi, plain edges, same-colour neighbours included), <= b
//! boundaries attached anywhere, x EVERY numbering of their vertices (named insertion on the hash back end).
//! Oracle: brute force over all edge labellings of the returned (bipartite) diagram.

use crate::gen::*;
use crate::report::*;
use crate::sweep;
use num::Rational64;
use quizx::detection_webs::{detection_webs, Pauli};
use quizx::graph::*;
use quizx::hash_graph::Graph;
use serde_json::{json, Value};
use std::collections::{BTreeMap, BTreeSet};
use std::time::Instant;

fn build_numbered(spec: &DiagSpec, names: &[usize]) -> Graph {
    let mut g = Graph::new();
    for (i, v) in spec.verts.iter().enumerate() {
        let ty = match v.kind {
            0 => VType::B,
            1 => VType::Z,
            _ => VType::X,
        };
        g.add_named_vertex_with_data(names[i], VData { ty, phase: Rational64::new(v.num as i64, v.den as i64).into(), ..Default::default() }).unwrap();
    }
    for &(s, t, _) in &spec.edges {
        g.add_edge(names[s as usize], names[t as usize]);
    }
    g.set_inputs(spec.inputs.iter().map(|&x| names[x as usize]).collect());
    g.set_outputs(spec.outputs.iter().map(|&x| names[x as usize]).collect());
    g
}

/// dimension of the space of valid webs by linear algebra over F2 (the constraints are linear: variables (x_j, z_j) per
/// interior edge j; at a spider the own-colour component is the same on all legs - and 0 if a leg goes to a boundary,
/// whose edges stay unmarked - and the other component sums to 0). Cross-checked against the brute-force count below
/// whenever the labelling space is small (<= 4^5); a disagreement is a machinery error, never a verdict.
fn web_space_dim(g: &Graph, edges: &[(V, V)]) -> usize {
    let is_b = |v: V| g.vertex_type(v) == VType::B;
    let interior: Vec<usize> = (0..edges.len()).filter(|&i| !is_b(edges[i].0) && !is_b(edges[i].1)).collect();
    let k = interior.len();
    assert!(2 * k <= 64, "MACHINERY: more than 32 interior edges");
    let var = |e: usize, z: bool| -> Option<usize> { interior.iter().position(|&i| i == e).map(|j| 2 * j + z as usize) };
    let mut rows: Vec<u64> = vec![];
    for v in g.vertices().filter(|&v| !is_b(v)) {
        let legs: Vec<usize> = (0..edges.len()).filter(|&i| edges[i].0 == v || edges[i].1 == v).collect();
        let own_is_z = g.vertex_type(v) != VType::Z; // a Z spider's own component is X
        let own: Vec<Option<usize>> = legs.iter().map(|&e| var(e, own_is_z)).collect();
        let other: Vec<Option<usize>> = legs.iter().map(|&e| var(e, !own_is_z)).collect();
        if own.iter().any(|o| o.is_none()) {
            // a boundary leg carries 0: every own component is 0
            for o in own.iter().flatten() {
                rows.push(1u64 << o);
            }
        } else if let Some(Some(first)) = own.first() {
            for o in own.iter().skip(1).flatten() {
                rows.push((1u64 << first) ^ (1u64 << o));
            }
        }
        let mut r = 0u64;
        for o in other.iter().flatten() {
            r ^= 1u64 << o;
        }
        if r != 0 {
            rows.push(r);
        }
    }
    let dim = 2 * k - f2_rank(rows);
    if k <= 5 {
        let brute = web_space_dim_brute(g, edges);
        assert!(brute == dim, "MACHINERY: web space dimension by elimination {} != by enumeration {}", dim, brute);
    }
    dim
}

/// all labellings of the interior edges that satisfy the web constraints; returns the dimension of that space
fn web_space_dim_brute(g: &Graph, edges: &[(V, V)]) -> usize {
    let is_b = |v: V| g.vertex_type(v) == VType::B;
    let interior: Vec<usize> = (0..edges.len()).filter(|&i| !is_b(edges[i].0) && !is_b(edges[i].1)).collect();
    let spiders: Vec<V> = g.vertices().filter(|&v| !is_b(v)).collect();
    let mut count = 0u64;
    let k = interior.len();
    for lab in 0..(1u64 << (2 * k)) {
        // label of interior edge j: bits (2j, 2j+1) = (x, z)
        let xz = |e: usize| -> (u64, u64) {
            match interior.iter().position(|&i| i == e) {
                Some(j) => ((lab >> (2 * j)) & 1, (lab >> (2 * j + 1)) & 1),
                None => (0, 0),
            }
        };
        let ok = spiders.iter().all(|&v| {
            let legs: Vec<usize> = (0..edges.len()).filter(|&i| edges[i].0 == v || edges[i].1 == v).collect();
            let xs: Vec<u64> = legs.iter().map(|&e| xz(e).0).collect();
            let zs: Vec<u64> = legs.iter().map(|&e| xz(e).1).collect();
            let (own, other) = if g.vertex_type(v) == VType::Z { (&xs, &zs) } else { (&zs, &xs) };
            (own.iter().all(|&b| b == 1) || own.iter().all(|&b| b == 0)) && other.iter().sum::<u64>() % 2 == 0
        });
        if ok {
            count += 1;
        }
    }
    count.trailing_zeros() as usize
}

fn f2_rank(mut rows: Vec<u64>) -> usize {
    let mut rank = 0;
    for bit in 0..64 {
        if let Some(p) = (rank..rows.len()).find(|&r| (rows[r] >> bit) & 1 == 1) {
            rows.swap(rank, p);
            for r in 0..rows.len() {
                if r != rank && (rows[r] >> bit) & 1 == 1 {
                    rows[r] ^= rows[rank];
                }
            }
            rank += 1;
        }
    }
    rank
}

fn numbering_class(spec: &DiagSpec, names: &[usize]) -> &'static str {
    let b: Vec<usize> = (0..spec.verts.len()).filter(|&i| spec.verts[i].kind == 0).map(|i| names[i]).collect();
    let s: Vec<usize> = (0..spec.verts.len()).filter(|&i| spec.verts[i].kind != 0).map(|i| names[i]).collect();
    if b.is_empty() {
        "no-boundaries"
    } else if b.iter().max() < s.iter().min() {
        "boundaries-first"
    } else if s.iter().max() < b.iter().min() {
        "boundaries-last"
    } else {
        "interleaved"
    }
}

fn shape_class(spec: &DiagSpec) -> String {
    let isolated = (0..spec.verts.len()).any(|i| spec.verts[i].kind != 0 && !spec.edges.iter().any(|e| e.0 as usize == i || e.1 as usize == i));
    let bb = spec.edges.iter().any(|e| spec.verts[e.0 as usize].kind == 0 && spec.verts[e.1 as usize].kind == 0);
    let multi = (0..spec.verts.len()).any(|i| spec.verts[i].kind != 0 && spec.edges.iter().filter(|e| (e.0 as usize == i && spec.verts[e.1 as usize].kind == 0) || (e.1 as usize == i && spec.verts[e.0 as usize].kind == 0)).count() >= 2);
    format!("isolated-spider={}|boundary-boundary-wire={}|spider-with-two-boundaries={}", isolated, bb, multi)
}

pub fn judge(st: &mut Stats, spec: &DiagSpec, names: &[usize]) {
    st.inc("evaluations");
    let g0 = build_numbered(spec, names);
    let mut g = g0.clone();
    let wit = || json!({"kind": "case", "spec": spec.to_json(), "names": names});
    let cls = format!("{}|{}", numbering_class(spec, names), shape_class(spec));
    let webs = match guarded(|| detection_webs(&mut g)) {
        Err(p) => {
            st.violation(Violation { sig: format!("detection_webs|panic|{}|{}", cls, p.rsplit(" @ ").next().unwrap_or("")), detail: p, witness: wit() });
            return;
        }
        Ok(w) => w,
    };
    if g.inputs() != g0.inputs() || g.outputs() != g0.outputs() {
        st.violation(Violation { sig: format!("detection_webs|inputs-outputs-not-restored|{}", cls), detail: format!("inputs {:?} outputs {:?}", g.inputs(), g.outputs()), witness: wit() });
        return;
    }
    // the returned diagram is the bipartite refinement of the original: no edge may be lost
    for (a, b, _) in g0.edges() {
        let kept = g.connected(a, b);
        let refined = g.vertices().any(|w| !g0.contains_vertex(w) && g.connected(w, a) && g.connected(w, b) && g.degree(w) == 2);
        if !(kept || refined) {
            st.violation(Violation { sig: format!("make_bipartite|edge-lost|{}", shape_class(spec)), detail: format!("edge ({},{}) of the input has no counterpart in the returned diagram", a, b), witness: wit() });
            return;
        }
    }
    let mut edges: Vec<(V, V)> = g.edges().map(|(a, b, _)| (a.min(b), a.max(b))).collect();
    edges.sort();
    if edges.len() > 32 {
        return;
    }
    let eidx: BTreeMap<(V, V), usize> = edges.iter().enumerate().map(|(i, e)| (*e, i)).collect();
    let is_b = |v: V| g.vertex_type(v) == VType::B;
    let mut vecs = vec![];
    for (wi, w) in webs.iter().enumerate() {
        let mut vec = 0u64;
        for (&(a, b), &p) in &w.edge_operators {
            let Some(&e) = eidx.get(&(a.min(b), a.max(b))) else {
                st.violation(Violation { sig: format!("web|marks-a-non-edge|{}", cls), detail: format!("web {} marks ({},{})", wi, a, b), witness: wit() });
                return;
            };
            if is_b(a) || is_b(b) {
                st.violation(Violation { sig: format!("web|boundary-edge-marked|{}", cls), detail: format!("web {} marks boundary edge ({},{}) with {:?}", wi, a, b, p), witness: wit() });
                return;
            }
            let (x, z) = match p {
                Pauli::X => (1, 0),
                Pauli::Z => (0, 1),
                Pauli::Y => (1, 1),
            };
            vec |= (x << (2 * e)) | (z << (2 * e + 1));
        }
        // spider constraints
        for v in g.vertices().filter(|&v| !is_b(v)) {
            let legs: Vec<usize> = (0..edges.len()).filter(|&i| edges[i].0 == v || edges[i].1 == v).collect();
            let xs: Vec<u64> = legs.iter().map(|&e| (vec >> (2 * e)) & 1).collect();
            let zs: Vec<u64> = legs.iter().map(|&e| (vec >> (2 * e + 1)) & 1).collect();
            let (own, other) = if g.vertex_type(v) == VType::Z { (&xs, &zs) } else { (&zs, &xs) };
            if !((own.iter().all(|&b| b == 1) || own.iter().all(|&b| b == 0)) && other.iter().sum::<u64>() % 2 == 0) {
                st.violation(Violation { sig: format!("web|spider-constraint-violated|{}", cls), detail: format!("web {} at spider {} ({:?}): {:?}", wi, v, g.vertex_type(v), w.edge_operators), witness: wit() });
                return;
            }
        }
        vecs.push(vec);
    }
    let rank = f2_rank(vecs.clone());
    let dim = web_space_dim(&g, &edges);
    if rank != vecs.len() {
        st.violation(Violation { sig: format!("webs|not-independent|{}|{}", if vecs.iter().any(|&v| v == 0) { "empty-web" } else { "dependent" }, cls), detail: format!("{} webs of rank {}", vecs.len(), rank), witness: wit() });
    } else if rank != dim {
        st.violation(Violation { sig: format!("webs|incomplete-or-too-many|{}", cls), detail: format!("{} independent webs returned, the space of valid webs has dimension {}", rank, dim), witness: wit() });
    } else if dim > 0 {
        st.inc("nontrivial");
    }
}

fn permutations(n: usize, cap: usize) -> Vec<Vec<usize>> {
    let mut out = vec![];
    let mut p: Vec<usize> = (0..n).collect();
    fn heap(k: usize, p: &mut Vec<usize>, out: &mut Vec<Vec<usize>>, cap: usize) {
        if out.len() >= cap {
            return;
        }
        if k <= 1 {
            out.push(p.clone());
            return;
        }
        for i in 0..k {
            heap(k - 1, p, out, cap);
            if k % 2 == 0 {
                p.swap(i, k - 1)
            } else {
                p.swap(0, k - 1)
            }
        }
    }
    heap(n, &mut p, &mut out, cap);
    out
}

/// diagrams: Z/X spiders with phases 0/pi, plain edges only
fn family(s: usize, b: usize) -> Vec<DiagSpec> {
    let mut out = vec![];
    for base in structures_upto(s, b, false) {
        if base.edges.iter().any(|e| e.2) {
            continue; // plain edges only
        }
        for_phases(&base, &[(0, 1), (1, 1)], |d| out.push(d.clone()));
    }
    out
}

pub fn run(rep: &mut Report) {
    rep.rule = "case = (diagram, numbering of its vertices); detection_webs runs on the hash back end built by named insertion; every returned web is checked on the returned (bipartite) diagram against the spider constraints, boundary edges unmarked, F2 independence, and the number of webs against the dimension of the space of all valid edge labellings found by brute force; non-trivial = a diagram with a non-zero web space handled correctly".into();
    rep.assume("labelling convention read from the code: a firing Z spider writes Pauli::X on its legs; std::HashMap order inside detection_webs is not owned: the oracle is order invariant");
    let quick = rep.quick();
    // (s, b, all numberings?)  thorough: P(4,2) x all numberings did not finish in two hours (the labelled family alone has
    // millions of diagrams); the six-vertex diagrams of P(4,2) get three numberings, everything smaller all n!
    let fams: Vec<(usize, usize, bool)> = if quick { vec![(3, 2, true), (2, 3, true)] } else { vec![(3, 2, true), (2, 3, true), (2, 4, true), (4, 1, true), (4, 2, false)] };
    for (s, b, all) in fams {
        let t0 = Instant::now();
        let fam = family(s, b);
        eprintln!("[C20] P({},{}): {} diagrams", s, b, fam.len());
        let stats = sweep(&fam, |st, i, spec| {
            watch_begin(i as u64, 0);
            st.inc("cases");
            let n = spec.verts.len();
            let perms: Vec<Vec<usize>> = if !all {
                // as built, reversed, and one interleaving
                let id: Vec<usize> = (0..n).collect();
                let rev: Vec<usize> = (0..n).rev().collect();
                let mix: Vec<usize> = (0..n).map(|k| (k * 5 + 2) % n.max(1)).collect();
                let mut v = vec![id, rev];
                let mut sorted = mix.clone();
                sorted.sort();
                if sorted == (0..n).collect::<Vec<_>>() {
                    v.push(mix);
                }
                v
            } else if n <= 5 {
                permutations(n, usize::MAX)
            } else {
                permutations(n, 5040).into_iter().step_by(7).collect()
            };
            for p in perms {
                judge(st, spec, &p);
            }
            // sparse names as well (ids with gaps)
            let sparse: Vec<usize> = (0..n).map(|k| 2 * k + 1).collect();
            judge(st, spec, &sparse);
            st.sample(1, || spec.to_json());
            watch_end();
        });
        rep.absorb(&format!("P({},{}) x {}", s, b, if all { "numberings" } else { "3 numberings" }), &format!("all diagrams with <= {} spiders (Z/X, phases 0/pi, plain edges, same-colour neighbours, isolated spiders, bare wires, spiders with two boundaries), <= {} boundaries x {}", s, b, if all { "every numbering of their vertices (all n! for n <= 5, every 7th of 720 for n = 6) and ids with gaps" } else { "three numberings (as built, reversed, interleaved) and ids with gaps" }), true, None, t0, stats);
    }
}

pub fn replay(w: &Value) -> Option<Violation> {
    let spec = DiagSpec::from_json(&w["spec"])?;
    let names: Vec<usize> = w["names"].as_array()?.iter().map(|x| x.as_u64().unwrap() as usize).collect();
    let mut st = Stats::default();
    judge(&mut st, &spec, &names);
    st.viols.into_values().next().map(|(_, v)| v)
}
