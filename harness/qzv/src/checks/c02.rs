//! C02 — circuit -> diagram translation denotes exactly the circuit's linear map, in every mode, on both back ends.

use crate::conv::*;
use crate::gen::*;
use crate::report::*;
use crate::sweep_range;
use quizx::circuit::Circuit;
use quizx::gate::*;
use quizx::graph::*;
use serde_json::{json, Value};
use std::time::Instant;

pub const MODES: [(bool, bool, &str); 4] = [(false, false, "plain"), (true, false, "simplify"), (false, true, "postselect"), (true, true, "simplify+postselect")];

fn gate_kinds(c: &Circuit) -> String {
    // coarse class of a failing circuit for the signature: which special gate kinds occur
    let mut k = vec![];
    for (t, n) in [(SWAP, "swap"), (InitAncilla, "init"), (PostSelect, "post"), (CCZ, "ccz"), (TOFF, "toff"), (ParityPhase, "pp"), (XCX, "xcx")] {
        if c.gates.iter().any(|g| g.t == t) {
            k.push(n);
        }
    }
    k.join("+")
}

pub fn judge_circuit<G: GraphLike>(st: &mut Stats, c: &Circuit, backend: &'static str, only_mode: Option<&str>) {
    let Some(rc) = to_rcircuit(c, &[]) else {
        st.inc("out_of_domain");
        return;
    };
    let (want, ni, no) = sim_circuit(&rc);
    if want.is_bad() {
        st.inc("out_of_domain");
        return;
    }
    for (simp, post, mname) in MODES {
        if let Some(m) = only_mode {
            if m != mname {
                continue;
            }
        }
        st.inc("evaluations");
        let wit = || json!({"kind": "circuit", "circuit": circuit_json(c), "qasm": c.to_qasm(), "mode": mname, "backend": backend});
        match guarded(|| c.to_graph_with_options::<G>(simp, post)) {
            Err(p) => st.violation(Violation { sig: format!("to_graph|{}|panic|{}|{}", mname, gate_kinds(c), last_panic_site()), detail: p, witness: wit() }),
            Ok(g) => {
                if g.inputs().len() != ni || g.outputs().len() != no {
                    st.violation(Violation {
                        sig: format!("to_graph|{}|arity|{}", mname, gate_kinds(c)),
                        detail: format!("diagram has {} inputs / {} outputs, the circuit denotes a map {} -> {}", g.inputs().len(), g.outputs().len(), ni, no),
                        witness: wit(),
                    });
                    continue;
                }
                let got = eval_graph(&g, None);
                if got.is_bad() {
                    st.violation(Violation { sig: format!("to_graph|{}|malformed|{}", mname, gate_kinds(c)), detail: got.show(), witness: wit() });
                } else if !tensors_equal(&got, &want) {
                    st.violation(Violation { sig: format!("to_graph|{}|wrong-map|{}", mname, gate_kinds(c)), detail: format!("diagram {} circuit {}", got.show(), want.show()), witness: wit() });
                } else {
                    st.inc("nontrivial");
                }
            }
        }
    }
}

/// circuits with ancilla initialisation as first and post-selection as last operation of a qubit
pub fn anc_circuit(q: usize, body_alpha: &[Gate], depth: usize, idx: u64) -> Circuit {
    // idx = init mask + 2^q * (post mask + 2^q * body index)
    let im = idx % (1 << q);
    let pm = (idx >> q) % (1 << q);
    let body = circuit_at(q, body_alpha, depth, idx >> (2 * q));
    let mut c = Circuit::new(q);
    for i in 0..q {
        if (im >> i) & 1 == 1 {
            c.push(Gate::new(InitAncilla, vec![i]));
        }
    }
    for g in body.gates {
        c.push(g);
    }
    for i in 0..q {
        if (pm >> i) & 1 == 1 {
            c.push(Gate::new(PostSelect, vec![i]));
        }
    }
    c
}

pub fn run(rep: &mut Report) {
    rep.rule = "case = (circuit, translation mode, back end); the diagram's reference tensor is compared entry by entry with the gate-matrix product of the same circuit; non-trivial = translated and agreed".into();
    rep.assume("ancilla initialisation only as a qubit's first and post-selection only as its last operation (the documented contract); other placements are counted out of domain");
    let quick = rep.quick();
    let fams: Vec<(&str, usize, Vec<Gate>, usize)> = if quick {
        vec![("K(2,3,A_full)", 2, alpha_full(2), 3), ("K(3,2,A_full)", 3, alpha_full(3), 2), ("K(2,4,A_ct)", 2, alpha_ct(2), 4), ("K(2,2,A_tol)", 2, alpha_tol(2), 2), ("K(3,3,A_full)", 3, alpha_full(3), 3), ("K(4,2,A_full)", 4, alpha_full(4), 2)]
    } else {
        vec![("K(2,4,A_full)", 2, alpha_full(2), 4), ("K(3,3,A_full)", 3, alpha_full(3), 3), ("K(3,4,A_ct)", 3, alpha_ct(3), 4), ("K(2,3,A_tol)", 2, alpha_tol(2), 3), ("K(4,2,A_full)", 4, alpha_full(4), 2)]
    };
    for (name, q, alpha, d) in fams {
        let t0 = Instant::now();
        let n = circuit_count(alpha.len(), d);
        let stats = sweep_range(n, |st, idx| {
            watch_begin(idx, 0);
            st.inc("cases");
            let c = circuit_at(q, &alpha, d, idx);
            judge_circuit::<quizx::vec_graph::Graph>(st, &c, "vec", None);
            judge_circuit::<quizx::hash_graph::Graph>(st, &c, "hash", None);
            st.sample(1, || json!({"qasm": c.to_qasm()}));
            watch_end();
        });
        rep.absorb(name, &format!("every circuit with <= {} gates over {} gate instances on {} qubits x 4 mode combinations x 2 back ends", d, alpha.len(), q), true, None, t0, stats);
    }
    // ancilla initialisation / post-selection anywhere in the sequence (placements violating the documented
    // contract are recognised by the reference simulator and counted out of domain)
    for (q, d) in if quick { vec![(3usize, 3usize)] } else { vec![(3, 4), (4, 3)] } {
        let t0 = Instant::now();
        let mut alpha = vec![];
        for i in 0..q {
            alpha.push(g1(HAD, i));
            alpha.push(g1(T, i));
            alpha.push(Gate::new(InitAncilla, vec![i]));
            alpha.push(Gate::new(PostSelect, vec![i]));
            for j in 0..q {
                if i != j {
                    alpha.push(Gate::new(CNOT, vec![i, j]));
                    if i < j {
                        alpha.push(Gate::new(CZ, vec![i, j]));
                        alpha.push(Gate::new(SWAP, vec![i, j]));
                    }
                }
            }
        }
        let n = circuit_count(alpha.len(), d);
        let stats = sweep_range(n, |st, idx| {
            watch_begin(idx, 2);
            st.inc("cases");
            let c = circuit_at(q, &alpha, d, idx);
            judge_circuit::<quizx::vec_graph::Graph>(st, &c, "vec", None);
            judge_circuit::<quizx::hash_graph::Graph>(st, &c, "hash", None);
            watch_end();
        });
        rep.absorb(&format!("K({},{},A_anc-inline)", q, d), "init_anc / post_sel as ordinary alphabet letters: every order of ancilla initialisations, post-selections, SWAPs and entangling gates (in-contract placements judged, others counted)", true, None, t0, stats);
    }
    // ancilla / post-selection family
    for (q, d) in if quick { vec![(2usize, 2usize), (3, 1)] } else { vec![(2, 3), (3, 2)] } {
        let t0 = Instant::now();
        let mut body = alpha_ct(q);
        for i in 0..q {
            for j in i + 1..q {
                body.push(Gate::new(SWAP, vec![i, j]));
            }
        }
        if q >= 3 {
            body.push(Gate::new(CCZ, vec![0, 1, 2]));
            body.push(Gate::new(TOFF, vec![0, 2, 1]));
        }
        let n = circuit_count(body.len(), d) << (2 * q);
        let stats = sweep_range(n, |st, idx| {
            watch_begin(idx, 1);
            st.inc("cases");
            let c = anc_circuit(q, &body, d, idx);
            judge_circuit::<quizx::vec_graph::Graph>(st, &c, "vec", None);
            judge_circuit::<quizx::hash_graph::Graph>(st, &c, "hash", None);
            st.sample(1, || json!({"qasm": c.to_qasm()}));
            watch_end();
        });
        rep.absorb(&format!("A_anc(q={},d={})", q, d), "every subset of qubits initialised as ancilla (first operation), every subset post-selected (last operation), every body with SWAP / CCZ / Toffoli in between", true, None, t0, stats);
    }
}

pub fn replay(w: &Value) -> Option<Violation> {
    let c = circuit_from_json(&w["circuit"])?;
    let mut st = Stats::default();
    let mode = w["mode"].as_str();
    if w["backend"] == "hash" {
        judge_circuit::<quizx::hash_graph::Graph>(&mut st, &c, "hash", mode);
    } else {
        judge_circuit::<quizx::vec_graph::Graph>(&mut st, &c, "vec", mode);
    }
    println!("replayed {} translation(s) of\n{}", st.get("evaluations"), c.to_qasm());
    st.viols.into_values().next().map(|(_, v)| v)
}
