//! C16 — phases: canonical representative mod 2, group laws, classification, best rational approximation, float round trip.

use crate::report::*;
use crate::sweep;
use num::bigint::BigInt;
use num::rational::BigRational;
use num::{One, Rational64, Signed, ToPrimitive};
use quizx::phase::Phase;
use serde_json::{json, Value};
use std::time::Instant;

fn br(n: i64, d: i64) -> BigRational {
    BigRational::new(BigInt::from(n), BigInt::from(d))
}

/// representative in (-1, 1] of x modulo 2
fn canon(x: &BigRational) -> BigRational {
    let two = br(2, 1);
    // r = x - 2*floor((x+1)/2) lies in [-1,1); map -1 to 1
    let k = ((x + BigRational::one()) / &two).floor();
    let mut r = x - &two * k;
    if r == br(-1, 1) {
        r = br(1, 1);
    }
    r
}

fn as_big(p: &Phase) -> BigRational {
    let r = p.to_rational();
    br(*r.numer(), *r.denom())
}

fn stored_ok(p: &Phase) -> bool {
    // stored value must be reduced, positive denominator, in (-1, 1]
    let r = p.to_rational();
    let (n, d) = (*r.numer(), *r.denom());
    d > 0 && num::integer::gcd(n.abs(), d) == 1 && -d < n && n <= d
}

/// closest fraction with denominator <= m; ties go to the smaller denominator (what Python's algorithm returns)
fn closest(x: &BigRational, m: i64) -> BigRational {
    if x.denom() <= &BigInt::from(m) {
        return x.clone();
    }
    let mut best: Option<(BigRational, BigRational)> = None; // (distance, value)
    for b in 1..=m {
        let bb = BigInt::from(b);
        // nearest numerators: floor and ceil of x*b
        let xb = x * BigRational::from_integer(bb.clone());
        for a in [xb.floor().to_integer(), xb.ceil().to_integer()] {
            let v = BigRational::new(a, bb.clone());
            let d = (&v - x).abs();
            match &best {
                None => best = Some((d, v)),
                Some((bd, _)) => {
                    if d < *bd {
                        best = Some((d, v));
                    }
                }
            }
        }
    }
    best.unwrap().1
}

fn all_phases(qmax: i64) -> Vec<(i64, i64)> {
    let mut v = vec![];
    for q in 1..=qmax {
        for p in (-q + 1)..=q {
            if num::integer::gcd(p.abs(), q) == 1 || (p == 0 && q == 1) {
                v.push((p, q));
            }
        }
    }
    v
}

fn viol(st: &mut Stats, sig: &str, detail: String, w: Value) {
    st.violation(Violation { sig: sig.to_string(), detail, witness: w });
}

fn construct(st: &mut Stats, p: i64, q: i64) {
    st.inc("cases");
    st.inc("evaluations");
    let w = json!({"kind": "construct", "p": p, "q": q});
    let r = guarded(|| (Phase::new(Rational64::new(p, q)), Phase::from((p, q)), Phase::from((-p, -q))));
    match r {
        Err(e) => viol(st, "construct|panic", e, w),
        Ok((a, b, c)) => {
            let want = canon(&br(p, q));
            if !stored_ok(&a) || as_big(&a) != want {
                viol(st, "construct|not-canonical", format!("Phase::new({}/{}) stored {} expected {}", p, q, a.to_rational(), want), w.clone());
            } else if a != b || a != c {
                viol(st, "construct|tuple-differs", format!("Phase::from(({},{})) = {}, Phase::from(({},{})) = {}, Phase::new = {}", p, q, b, -p, -q, c, a), w.clone());
            } else if p.abs() > q.abs() {
                st.inc("nontrivial");
            }
            // every conversion stores the canonical representative (== compares values, so it cannot see an unreduced or
            // out-of-range stored fraction) and classifies like Phase::new
            let mut variants: Vec<(&str, Phase)> = vec![("tuple", b), ("tuple-negated", c), ("rational-into", Rational64::new(p, q).into())];
            if q == 1 {
                variants.push(("integer", Phase::from(p)));
                variants.push(("integer-negated-twice", -Phase::from(-p)));
            }
            for (name, v) in variants {
                if !stored_ok(&v) || as_big(&v) != want {
                    viol(st, &format!("construct|{}|not-canonical", name), format!("{}/{} through the {} conversion is stored as {}, expected {}", p, q, name, v.to_rational(), want), w.clone());
                } else if (v.is_pauli(), v.is_clifford(), v.is_proper_clifford(), v.is_t()) != (a.is_pauli(), a.is_clifford(), a.is_proper_clifford(), a.is_t()) {
                    viol(st, &format!("construct|{}|classified-differently", name), format!("{}/{}", p, q), w.clone());
                }
            }
            // classification depends only on the class
            let two = br(2, 1);
            let is_int = want.is_integer();
            let cl = (&want * &two).is_integer();
            let proper = cl && !is_int;
            let t = want.denom() == &BigInt::from(4);
            let got = (a.is_pauli(), a.is_clifford(), a.is_proper_clifford(), a.is_t());
            if got != (is_int, cl, proper, t) {
                viol(st, "classify|wrong", format!("{}/{}: (pauli, clifford, proper, t) = {:?}, expected {:?}", p, q, got, (is_int, cl, proper, t)), w.clone());
            }
            // integer scaling
            for k in -5i64..=5 {
                st.inc("evaluations");
                match guarded(|| a * k) {
                    Err(e) => viol(st, "scale|panic", e, json!({"kind": "scale", "p": p, "q": q, "k": k})),
                    Ok(s) => {
                        let want = canon(&(br(p, q) * br(k, 1)));
                        if !stored_ok(&s) || as_big(&s) != want {
                            viol(st, "scale|wrong", format!("({}/{}) * {} = {}, expected {}", p, q, k, s, want), json!({"kind": "scale", "p": p, "q": q, "k": k}));
                        }
                    }
                }
            }
            // negation
            let n = -a;
            let wantn = canon(&-br(p, q));
            if !stored_ok(&n) || as_big(&n) != wantn {
                viol(st, "neg|wrong", format!("-({}/{}) = {}, expected {}", p, q, n, wantn), w);
            }
        }
    }
}

fn pairs(st: &mut Stats, a: (i64, i64), all: &[(i64, i64)]) {
    let pa = Phase::new(Rational64::new(a.0, a.1));
    for &b in all {
        st.inc("cases");
        st.inc("evaluations");
        let pb = Phase::new(Rational64::new(b.0, b.1));
        let w = || json!({"kind": "pair", "a": [a.0, a.1], "b": [b.0, b.1]});
        match guarded(|| (pa + pb, pa - pb)) {
            Err(e) => viol(st, "add|panic", e, w()),
            Ok((s, d)) => {
                let ws = canon(&(br(a.0, a.1) + br(b.0, b.1)));
                let wd = canon(&(br(a.0, a.1) - br(b.0, b.1)));
                if !stored_ok(&s) || as_big(&s) != ws {
                    viol(st, "add|wrong", format!("{} + {} = {}, expected {}", pa, pb, s, ws), w());
                } else if !stored_ok(&d) || as_big(&d) != wd {
                    viol(st, "sub|wrong", format!("{} - {} = {}, expected {}", pa, pb, d, wd), w());
                } else {
                    let mut x = pa;
                    x += pb;
                    let mut y = pa;
                    y -= pb;
                    if x != s || y != d {
                        viol(st, "assign-ops|differ", format!("+= / -= differ from + / - on {} {}", pa, pb), w());
                    }
                    // wrapped around?
                    if (br(a.0, a.1) + br(b.0, b.1)).abs() > BigRational::one() {
                        st.inc("nontrivial");
                    }
                }
                // equal classes compare equal
                if (pa == pb) != (canon(&br(a.0, a.1)) == canon(&br(b.0, b.1))) {
                    viol(st, "eq|wrong", format!("{} == {} is {}", pa, pb, pa == pb), w());
                }
            }
        }
    }
}

fn limit(st: &mut Stats, a: (i64, i64), bounds: &[i64], table: &mut Vec<(i64, i64, i64, i64, i64)>) {
    let pa = Phase::new(Rational64::new(a.0, a.1));
    for &m in bounds {
        st.inc("cases");
        st.inc("evaluations");
        let w = json!({"kind": "limit", "p": a.0, "q": a.1, "bound": m});
        match guarded(|| pa.limit_denominator(m)) {
            Err(e) => viol(st, "limit_denominator|panic", e, w),
            Ok(r) => {
                let want = canon(&closest(&br(a.0, a.1), m));
                let rr = r.to_rational();
                table.push((a.0, a.1, m, *rr.numer(), *rr.denom()));
                if !stored_ok(&r) || as_big(&r) != want {
                    let exact_hit = a.1 <= m;
                    viol(st, if exact_hit { "limit_denominator|exact-hit-changed" } else { "limit_denominator|not-closest" }, format!("({}/{}).limit_denominator({}) = {}, closest is {}", a.0, a.1, m, r, want), w);
                } else if a.1 > m {
                    st.inc("nontrivial");
                }
            }
        }
    }
}

fn floats(st: &mut Stats) {
    let mut vals: Vec<f64> = vec![];
    for k in -3072i64..=3072 {
        vals.push(k as f64 / 1024.0);
    }
    for k in -300i64..=300 {
        vals.push(k as f64 / 100.0);
        vals.push(k as f64 / 7.0);
        vals.push(k as f64 * 0.001);
    }
    for &f in &vals {
        st.inc("cases");
        st.inc("evaluations");
        let w = json!({"kind": "float", "f": f});
        match guarded(|| {
            let p = Phase::from_f64(f);
            (p, p.to_f64())
        }) {
            Err(e) => viol(st, "float|panic", e, w),
            Ok((p, g)) => {
                // compare modulo 2 with the exact value of the float
                let exact = BigRational::from_float(f).unwrap();
                let want = canon(&exact);
                let wf = want.to_f64().unwrap();
                let tol = 4.0 * f64::EPSILON * wf.abs().max(f.abs()).max(1e-300);
                if !stored_ok(&p) {
                    viol(st, "float|not-canonical", format!("from_f64({}) stored {}", f, p.to_rational()), w);
                } else if (g - wf).abs() > tol {
                    viol(st, "float|roundtrip", format!("from_f64({}).to_f64() = {}, expected {} (mod 2)", f, g, wf), w);
                } else if f.abs() > 1.0 {
                    st.inc("nontrivial");
                }
            }
        }
    }
}

/// Python's fractions.Fraction.limit_denominator confirms the table (the property names that function)
fn python_confirm(table: &[(i64, i64, i64, i64, i64)]) -> Result<u64, String> {
    let dir = format!("/verif/target/scratch/c16-{}", std::process::id());
    std::fs::create_dir_all(&dir).map_err(|e| e.to_string())?;
    let path = format!("{}/table.txt", dir);
    let mut s = String::new();
    for r in table {
        s += &format!("{} {} {} {} {}\n", r.0, r.1, r.2, r.3, r.4);
    }
    std::fs::write(&path, s).map_err(|e| e.to_string())?;
    let prog = r#"
import sys
from fractions import Fraction
bad = 0; n = 0; first = None
for line in open(sys.argv[1]):
    p, q, m, rn, rd = map(int, line.split())
    want = Fraction(p, q).limit_denominator(m)
    while want > 1: want -= 2
    while want <= -1: want += 2
    n += 1
    if want != Fraction(rn, rd):
        bad += 1
        if first is None: first = (p, q, m, rn, rd, str(want))
print(n, bad, first)
"#;
    let out = std::process::Command::new("python3").arg("-c").arg(prog).arg(&path).output().map_err(|e| format!("cannot run python3: {}", e))?;
    let _ = std::fs::remove_dir_all(&dir);
    if !out.status.success() {
        return Err(format!("python3 failed: {}", String::from_utf8_lossy(&out.stderr)));
    }
    let txt = String::from_utf8_lossy(&out.stdout).to_string();
    let mut it = txt.split_whitespace();
    let n: u64 = it.next().and_then(|x| x.parse().ok()).ok_or("bad python output")?;
    let bad: u64 = it.next().and_then(|x| x.parse().ok()).ok_or("bad python output")?;
    if bad > 0 {
        return Err(format!("DISAGREE {} of {}: first {}", bad, n, txt.trim()));
    }
    Ok(n)
}

pub fn run(rep: &mut Report) {
    rep.rule = "case = one rational / ordered pair of phases / (phase, bound) / float, enumerated exhaustively over the stated grids; oracle = BigRational arithmetic modulo 2 with representative in (-1,1], brute-force closest fraction (ties to the smaller denominator), and Python's Fraction.limit_denominator on the same table; non-trivial = the operation wrapped around / actually approximated".into();
    rep.assume("numerators and denominators stay far below 64 bits (denominators <= 64 for the group laws, <= 400 for approximation)");
    let quick = rep.quick();
    // construction, classification, scaling
    let t0 = Instant::now();
    let qmax = 64i64;
    let mut grid = vec![];
    for q in 1..=qmax {
        for p in (-3 * q)..=(3 * q) {
            grid.push((p, q));
        }
    }
    let stats = sweep(&grid, |st, _, &(p, q)| {
        construct(st, p, q);
        st.sample(2, || json!({"construct": [p, q]}));
    });
    rep.absorb("construct", "all p/q with 1 <= q <= 64, |p| <= 3q (both tuple sign conventions): canonical representative, classification, scaling by -5..5, negation", true, None, t0, stats);
    // pairs
    let t0 = Instant::now();
    let all = all_phases(if quick { 24 } else { 64 });
    let stats = sweep(&all, |st, _, &a| {
        pairs(st, a, &all);
        st.sample(1, || json!({"pairs_with": format!("{:?}", a)}));
    });
    rep.absorb("pairs", &format!("all ordered pairs of the {} canonical phases with denominator <= {}: +, -, +=, -=, ==", all.len(), if quick { 24 } else { 64 }), true, None, t0, stats);
    // limit_denominator
    let t0 = Instant::now();
    let lim = all_phases(if quick { 100 } else { 400 });
    let bounds: Vec<i64> = (2..=64).collect();
    let tables: std::sync::Mutex<Vec<(i64, i64, i64, i64, i64)>> = std::sync::Mutex::new(vec![]);
    let stats = sweep(&lim, |st, _, &a| {
        let mut t = vec![];
        limit(st, a, &bounds, &mut t);
        tables.lock().unwrap().extend(t);
    });
    let table = tables.into_inner().unwrap();
    rep.absorb("limit_denominator", &format!("all {} canonical phases with denominator <= {} x all bounds 2..64 against the brute-force closest fraction", lim.len(), if quick { 100 } else { 400 }), true, None, t0, stats);
    let t0 = Instant::now();
    let mut st = Stats::default();
    match python_confirm(&table) {
        Ok(n) => {
            st.add("cases", n);
            st.add("evaluations", n);
            rep.extra.insert("python_confirmed_rows".into(), json!(n));
        }
        Err(e) if e.starts_with("DISAGREE") => st.violation(Violation { sig: "limit_denominator|differs-from-python".into(), detail: e, witness: json!({"kind": "python"}) }),
        Err(e) => rep.machinery_errors.push(e),
    }
    rep.absorb("python cross-check", "the same table re-derived by python3's fractions.Fraction.limit_denominator", true, None, t0, st);
    // floats
    let t0 = Instant::now();
    let mut st = Stats::default();
    floats(&mut st);
    rep.absorb("floats", "k/1024 for |k| <= 3072 and decimal grids k/100, k/7, k/1000: from_f64 then to_f64 equals the value modulo 2 within 4 ulp", true, None, t0, st);
}

pub fn replay(w: &Value) -> Option<Violation> {
    let mut st = Stats::default();
    match w["kind"].as_str()? {
        "construct" | "scale" => construct(&mut st, w["p"].as_i64()?, w["q"].as_i64()?),
        "pair" => {
            let a = (w["a"][0].as_i64()?, w["a"][1].as_i64()?);
            let b = (w["b"][0].as_i64()?, w["b"][1].as_i64()?);
            pairs(&mut st, a, &[b]);
        }
        "limit" => {
            let mut t = vec![];
            limit(&mut st, (w["p"].as_i64()?, w["q"].as_i64()?), &[w["bound"].as_i64()?], &mut t);
        }
        "python" => {
            // re-derive the quick table and have python3 confirm it again
            let mut table = vec![];
            let bounds: Vec<i64> = (2..=64).collect();
            for a in all_phases(100) {
                limit(&mut st, a, &bounds, &mut table);
            }
            if let Err(e) = python_confirm(&table) {
                st.violation(Violation { sig: "limit_denominator|differs-from-python".into(), detail: e, witness: w.clone() });
            }
        }
        _ => floats(&mut st),
    }
    st.viols.into_values().next().map(|(_, v)| v)
}
