use crate::report::Report;
use serde_json::Value;

pub mod c01;
pub mod c02;
pub mod c03;
pub mod c04;
pub mod c05;
pub mod c06;
pub mod c07;
pub mod c08;
pub mod c09;
pub mod c10;
pub mod c11;
pub mod c12;
pub mod c13;
pub mod c14;
pub mod c15;
pub mod c16;
pub mod c17;
pub mod c18;
pub mod c19;
pub mod c20;

pub fn run(id: &str, rep: &mut Report) -> bool {
    match id {
        "C01" => c01::run(rep),
        "C02" => c02::run(rep),
        "C03" => c03::run(rep),
        "C04" => c04::run(rep),
        "C05" => c05::run(rep),
        "C06" => c06::run(rep),
        "C07" => c07::run(rep),
        "C08" => c08::run(rep),
        "C09" => c09::run(rep),
        "C10" => c10::run(rep),
        "C11" => c11::run(rep),
        "C12" => c12::run(rep),
        "C13" => c13::run(rep),
        "C14" => c14::run(rep),
        "C15" => c15::run(rep),
        "C16" => c16::run(rep),
        "C17" => c17::run(rep),
        "C18" => c18::run(rep),
        "C19" => c19::run(rep),
        "C20" => c20::run(rep),
        _ => return false,
    }
    true
}

pub fn replay(id: &str, v: &Value) -> i32 {
    let w = &v["witness"];
    let res = match id {
        "C01" => c01::replay(w),
        "C02" => c02::replay(w),
        "C03" => c03::replay(w),
        "C04" => c04::replay(w),
        "C05" => c05::replay(w),
        "C06" => c06::replay(w),
        "C07" => c07::replay(w),
        "C08" => c08::replay(w),
        "C09" => c09::replay(w),
        "C10" => c10::replay(w),
        "C11" => c11::replay(w),
        "C12" => c12::replay(w),
        "C13" => c13::replay(w),
        "C14" => c14::replay(w),
        "C15" => c15::replay(w),
        "C16" => c16::replay(w),
        "C17" => c17::replay(w),
        "C18" => c18::replay(w),
        "C19" => c19::replay(w),
        "C20" => c20::replay(w),
        _ => {
            eprintln!("unknown property id {}", id);
            return 2;
        }
    };
    match res {
        Some(viol) => {
            println!("REPRODUCED property={} signature={}\n  {}", id, viol.sig, viol.detail);
            1
        }
        None => {
            println!("NOT REPRODUCED property={} (the recorded case now satisfies the property)", id);
            0
        }
    }
}
