use crate::report::Report;
use serde_json::Value;

pub mod c01;
pub mod c04;
pub mod c08;
pub mod c11;

pub fn run(id: &str, rep: &mut Report) -> bool {
    match id {
        "C01" => c01::run(rep),
        "C04" => c04::run(rep),
        "C08" => c08::run(rep),
        "C11" => c11::run(rep),
        _ => return false,
    }
    true
}

pub fn replay(id: &str, v: &Value) -> i32 {
    let w = &v["witness"];
    let res = match id {
        "C01" => c01::replay(w),
        "C04" => c04::replay(w),
        "C08" => c08::replay(w),
        "C11" => c11::replay(w),
        _ => {
            eprintln!("unknown property id {}", id);
            return 2;
        }
    };
    match res {
        Some(viol) => {
            println!("REPRODUCED property={} signature={}\n  {}", id, viol.sig, viol.detail);
            1
        }
        None => {
            println!("NOT REPRODUCED property={} (the recorded case now satisfies the property)", id);
            0
        }
    }
}
