use crate::report::Report;
use serde_json::Value;

pub mod c04;

pub fn run(id: &str, rep: &mut Report) -> bool {
    match id {
        "C04" => c04::run(rep),
        _ => return false,
    }
    true
}

pub fn replay(id: &str, v: &Value) -> i32 {
    let w = &v["witness"];
    let res = match id {
        "C04" => c04::replay(w),
        _ => {
            eprintln!("unknown property id {}", id);
            return 2;
        }
    };
    match res {
        Some(viol) => {
            println!("REPRODUCED property={} signature={}\n  {}", id, viol.sig, viol.detail);
            1
        }
        None => {
            println!("NOT REPRODUCED property={} (the recorded case now satisfies the property)", id);
            0
        }
    }
}
