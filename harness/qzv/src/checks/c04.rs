//! C04 — a rewrite rule is sound when its matcher accepts and a no-op when it rejects.
//!
//! E1 sweep: every diagram of D(s,b,Phi) x every rule x every argument tuple (all vertices, all ordered
//! pairs including equal ones, boundaries, and two ids that do not exist), both graph back ends.

use crate::conv::*;
use crate::gen::*;
use crate::report::*;
use crate::sweep;
use quizx::basic_rules::*;
use quizx::graph::*;
use serde_json::{json, Value};
use std::time::Instant;

pub struct Rule1<G> {
    pub name: &'static str,
    pub check: fn(&G, V) -> bool,
    pub unchecked: fn(&mut G, V),
    pub checked: Option<fn(&mut G, V) -> bool>,
}
pub struct Rule2<G> {
    pub name: &'static str,
    pub check: fn(&G, V, V) -> bool,
    pub unchecked: fn(&mut G, V, V),
    pub checked: Option<fn(&mut G, V, V) -> bool>,
}

pub fn rules1<G: GraphLike>() -> Vec<Rule1<G>> {
    vec![
        Rule1 { name: "pi_copy", check: check_pi_copy, unchecked: pi_copy_unchecked, checked: Some(pi_copy) },
        Rule1 { name: "remove_id", check: check_remove_id, unchecked: remove_id_unchecked, checked: Some(remove_id) },
        Rule1 { name: "color_change", check: check_color_change, unchecked: color_change_unchecked, checked: Some(color_change) },
        Rule1 { name: "local_comp", check: check_local_comp, unchecked: local_comp_unchecked, checked: Some(local_comp) },
        Rule1 { name: "remove_single", check: check_remove_single, unchecked: remove_single_unchecked, checked: Some(remove_single) },
    ]
}

fn check_pivot12<G: GraphLike>(g: &G, v0: V, v1: V) -> bool {
    // the two-stage matcher exactly as its documentation prescribes: stage 2 only after stage 1 accepted
    check_pivot1(g, v0) && check_pivot2(g, v0, v1)
}

pub fn rules2<G: GraphLike>() -> Vec<Rule2<G>> {
    vec![
        Rule2 { name: "spider_fusion", check: check_spider_fusion, unchecked: spider_fusion_unchecked, checked: Some(spider_fusion) },
        Rule2 { name: "pivot", check: check_pivot, unchecked: pivot_unchecked, checked: Some(pivot) },
        Rule2 { name: "pivot_two_stage", check: check_pivot12, unchecked: pivot_unchecked, checked: None },
        Rule2 { name: "gen_pivot", check: check_gen_pivot, unchecked: gen_pivot_unchecked, checked: Some(gen_pivot) },
        Rule2 { name: "gen_pivot_reduce", check: check_gen_pivot_reduce, unchecked: gen_pivot_unchecked, checked: None },
        Rule2 { name: "boundary_pivot", check: check_boundary_pivot, unchecked: gen_pivot_unchecked, checked: Some(boundary_pivot) },
        Rule2 { name: "h_boundary_pivot", check: check_h_boundary_pivot, unchecked: gen_pivot_unchecked, checked: Some(h_boundary_pivot) },
        Rule2 { name: "boundary_local_comp", check: check_boundary_local_comp, unchecked: boundary_local_comp_unchecked, checked: Some(boundary_local_comp) },
        Rule2 { name: "gadget_fusion", check: check_gadget_fusion, unchecked: gadget_fusion_unchecked, checked: Some(gadget_fusion) },
        Rule2 { name: "remove_pair", check: check_remove_pair, unchecked: remove_pair_unchecked, checked: Some(remove_pair) },
        Rule2 { name: "remove_duplicate", check: check_remove_duplicate, unchecked: remove_duplicate_unchecked, checked: Some(remove_duplicate) },
    ]
}

pub fn vclass<G: GraphLike>(g: &G, v: V) -> String {
    match g.vertex_data_opt(v) {
        None => "-".into(),
        Some(d) => {
            let t = match d.ty {
                VType::B => "B",
                VType::Z => "Z",
                VType::X => "X",
                _ => "?",
            };
            let p = if d.ty == VType::B {
                ""
            } else if d.phase.is_pauli() {
                "p"
            } else if d.phase.is_proper_clifford() {
                "c"
            } else {
                "t"
            };
            format!("{}{}", t, p)
        }
    }
}

pub fn relclass<G: GraphLike>(g: &G, v0: V, v1: V) -> &'static str {
    if v0 == v1 {
        "eq"
    } else {
        match g.edge_type_opt(v0, v1) {
            Some(EType::N) => "N",
            Some(EType::H) => "H",
            Some(_) => "W",
            None => "none",
        }
    }
}

fn witness(spec: &DiagSpec, rule: &str, args: &[V], backend: &str) -> Value {
    json!({"kind": "rule", "spec": spec.to_json(), "rule": rule, "args": args, "backend": backend})
}

pub struct Ctx<'a, G: GraphLike> {
    pub spec: &'a DiagSpec,
    pub g: G,
    pub before: Option<Tensor>,
    pub scratch: G,
    pub backend: &'static str,
    pub assignments: Option<u32>, // number of boolean variables (C10) or None
}

/// the judgement of one (diagram, rule, args) case; `apply`/`check`/`checked` are closures over the args
#[allow(clippy::too_many_arguments)]
pub fn judge<G: GraphLike + PartialEq>(
    st: &mut Stats,
    cx: &mut Ctx<G>,
    rule: &'static str,
    args: &[V],
    cls: &dyn Fn(&G) -> String,
    check: &dyn Fn(&G) -> bool,
    unchecked: &dyn Fn(&mut G),
    checked: Option<&dyn Fn(&mut G) -> bool>,
    verdicts: &mut Vec<u8>,
) {
    st.inc("evaluations");
    let m = guarded(|| check(&cx.g));
    let m = match m {
        Err(p) => {
            verdicts.push(2);
            st.violation(Violation {
                sig: format!("{}|matcher-panic|{}|{}", rule, cls(&cx.g), last_panic_site()),
                detail: format!("check_{} panicked: {}", rule, p),
                witness: witness(cx.spec, rule, args, cx.backend),
            });
            return;
        }
        Ok(m) => m,
    };
    verdicts.push(m as u8);
    if m {
        st.inc("accepted");
        let mut g2 = cx.g.clone();
        if let Err(p) = guarded(|| unchecked(&mut g2)) {
            st.violation(Violation {
                sig: format!("{}|rule-panic|{}|{}", rule, cls(&cx.g), last_panic_site()),
                detail: format!("matcher accepted, {}_unchecked panicked: {}", rule, p),
                witness: witness(cx.spec, rule, args, cx.backend),
            });
            return;
        }
        let asg: Vec<Option<u32>> = match cx.assignments {
            None => vec![None],
            Some(n) => (0..(1u32 << n)).map(Some).collect(),
        };
        if cx.before.is_none() || cx.assignments.is_some() {
            // (with variables the "before" tensor is per assignment, computed below)
        }
        for a in asg {
            let before = if a.is_none() {
                if cx.before.is_none() {
                    cx.before = Some(eval_graph(&cx.g, None));
                }
                cx.before.clone().unwrap()
            } else {
                eval_graph(&cx.g, a)
            };
            let after = eval_graph(&g2, a);
            if before.is_bad() {
                st.inc("skipped_unevaluable_input");
                return;
            }
            if after.is_bad() {
                st.violation(Violation {
                    sig: format!("{}|malformed-result|{}", rule, cls(&cx.g)),
                    detail: format!("matcher accepted, result is not a well-formed diagram: {}", after.show()),
                    witness: witness(cx.spec, rule, args, cx.backend),
                });
                return;
            }
            if !tensors_equal(&before, &after) {
                st.violation(Violation {
                    sig: format!("{}|unsound|{}", rule, cls(&cx.g)),
                    detail: format!("matcher accepted but the map changed (assignment {:?}): before {} after {}", a, before.show(), after.show()),
                    witness: witness(cx.spec, rule, args, cx.backend),
                });
                return;
            }
        }
        st.inc("nontrivial");
    } else if let Some(checked) = checked {
        let r = guarded(|| checked(&mut cx.scratch));
        match r {
            Err(p) => {
                st.violation(Violation {
                    sig: format!("{}|checked-panic|{}|{}", rule, cls(&cx.g), last_panic_site()),
                    detail: format!("matcher rejected, checked rule panicked: {}", p),
                    witness: witness(cx.spec, rule, args, cx.backend),
                });
                cx.scratch = cx.g.clone();
            }
            Ok(ret) => {
                if ret || cx.scratch != cx.g {
                    st.violation(Violation {
                        sig: format!("{}|reject-not-noop|{}", rule, cls(&cx.g)),
                        detail: format!("matcher rejected but the checked rule returned {} and graph changed = {}", ret, cx.scratch != cx.g),
                        witness: witness(cx.spec, rule, args, cx.backend),
                    });
                    cx.scratch = cx.g.clone();
                }
            }
        }
    }
}

/// all rules x all argument tuples on one diagram; returns the matcher verdict vector
pub fn all_rules_on<G: GraphLike + PartialEq>(st: &mut Stats, spec: &DiagSpec, backend: &'static str, nvars: Option<u32>, only: Option<(&str, &[V])>) -> Vec<u8> {
    let g: G = spec.build();
    // ids from 0: with an id gap the freed ids of the removed dummies are swept as (stale) arguments too
    let n = spec.verts.len() + spec.gap as usize;
    let mut ids: Vec<V> = (0..n).collect();
    ids.push(n);
    ids.push(n + 5);
    let mut cx = Ctx { spec, scratch: g.clone(), g, before: None, backend, assignments: nvars };
    let mut verdicts = vec![];
    for r in rules1::<G>() {
        for &v in &ids {
            if let Some((name, a)) = only {
                if name != r.name || a != [v] {
                    continue;
                }
            }
            let chk = r.checked;
            judge(
                st,
                &mut cx,
                r.name,
                &[v],
                &|g: &G| vclass(g, v),
                &|g: &G| (r.check)(g, v),
                &|g: &mut G| (r.unchecked)(g, v),
                chk.as_ref().map(|c| {
                    let c = *c;
                    Box::new(move |g: &mut G| c(g, v)) as Box<dyn Fn(&mut G) -> bool>
                })
                .as_deref(),
                &mut verdicts,
            );
        }
    }
    for r in rules2::<G>() {
        for &v0 in &ids {
            for &v1 in &ids {
                if let Some((name, a)) = only {
                    if name != r.name || a != [v0, v1] {
                        continue;
                    }
                }
                let chk = r.checked;
                judge(
                    st,
                    &mut cx,
                    r.name,
                    &[v0, v1],
                    &|g: &G| format!("{},{}|rel={}", vclass(g, v0), vclass(g, v1), relclass(g, v0, v1)),
                    &|g: &G| (r.check)(g, v0, v1),
                    &|g: &mut G| (r.unchecked)(g, v0, v1),
                    chk.as_ref().map(|c| {
                        let c = *c;
                        Box::new(move |g: &mut G| c(g, v0, v1)) as Box<dyn Fn(&mut G) -> bool>
                    })
                    .as_deref(),
                    &mut verdicts,
                );
            }
        }
    }
    verdicts
}

pub fn on_both_backends(st: &mut Stats, spec: &DiagSpec, nvars: Option<u32>) {
    st.inc("cases");
    let a = all_rules_on::<quizx::vec_graph::Graph>(st, spec, "vec", nvars, None);
    let b = all_rules_on::<quizx::hash_graph::Graph>(st, spec, "hash", nvars, None);
    if a != b {
        st.violation(Violation {
            sig: "backend-divergence|matcher verdicts differ".into(),
            detail: "the vector and hash back ends gave different matcher verdicts on the same diagram".into(),
            witness: json!({"kind": "divergence", "spec": spec.to_json()}),
        });
    }
    st.sample(3, || spec.to_json());
}

pub fn run(rep: &mut Report) {
    rep.rule = "case = (diagram, rule, argument tuple, back end); diagrams enumerated exhaustively per family; a case is non-trivial when the matcher accepted and the rule was applied and judged".into();
    rep.assume("diagrams are built through the public graph API; phases restricted to the listed alphabet; exact comparison in Z[omega][1/sqrt2]");
    let quick = rep.quick();
    // family 1: D(s<=2, b<=2, Phi8) labelled, spiders first
    let fams: Vec<(&str, usize, usize, bool, &[Ph])> = if quick {
        vec![("D(2,2,Phi8)", 2, 2, false, &PHI8[..]), ("D(3,1,Phi4)", 3, 1, false, &PHI4[..]), ("D(2,2,Phi6)/bfirst", 2, 2, true, &PHI6[..])]
    } else {
        vec![("D(2,2,Phi8)", 2, 2, false, &PHI8[..]), ("D(3,2,Phi8)", 3, 2, false, &PHI8[..]), ("D(3,2,Phi6)/bfirst", 3, 2, true, &PHI6[..]), ("D(2,3,Phi6)", 2, 3, false, &PHI6[..]), ("D(4,0,Phi4)", 4, 0, false, &PHI4[..])]
    };
    // tolerance track: phases outside k*pi/4 (1/3, 1/8, 5/7) - the rules' scalar factors take the float route
    // (from_phase, 1 + e^(i alpha)); judged by the same comparator, which is relative (1e-9) as soon as one side is approximate
    let tol: Vec<Ph> = PHI4.iter().chain(PHI_TOL.iter()).cloned().collect();
    let mut fams = fams;
    fams.push(if quick { ("tolerance D(2,2,Phi4+tol)", 2, 2, false, &tol[..]) } else { ("tolerance D(3,1,Phi4+tol)", 3, 1, false, &tol[..]) });
    if !quick {
        fams.push(("tolerance D(2,2,Phi4+tol)", 2, 2, false, &tol[..]));
    }
    for (name, s, b, bfirst, phis) in fams {
        let t0 = Instant::now();
        let structs = if s == 4 { structures(s, b, bfirst) } else { structures_upto(s, b, bfirst) };
        let stats = sweep(&structs, |st, i, base| {
            for_phases(base, phis, |spec| {
                watch_begin(i as u64, 0);
                on_both_backends(st, spec, None);
                watch_end();
            });
        });
        rep.absorb(name, &format!("all labelled diagrams with <= {} spiders (Z/X), <= {} boundaries, {} phases, boundaries {}", s, b, phis.len(), if bfirst { "numbered first" } else { "numbered last" }), true, None, t0, stats);
    }
    // family 2: rule-targeted neighbourhoods
    let t0 = Instant::now();
    let fam = targeted_family(if quick { 1 } else { 3 });
    let stats = sweep(&fam, |st, i, spec| {
        watch_begin(i as u64, 1);
        on_both_backends(st, spec, None);
        // the same diagram with its edges inserted in the opposite order: every adjacency list is reversed (rules that
        // take "the first neighbour such that ..." see a different vertex first)
        let mut rev = spec.clone();
        rev.edges.reverse();
        on_both_backends(st, &rev, None);
        // and built after two vertices were created and removed again: ids start at 2, the vector back end holds two
        // freed slots (vertices added by a rule re-use them), stale ids 0 and 1 are among the swept arguments
        let mut gapped = spec.clone();
        gapped.gap = 2;
        on_both_backends(st, &gapped, None);
        watch_end();
    });
    rep.absorb("targeted", "local-complementation stars, pivot double stars, gadget pairs with shared neighbourhoods (supports with and without outputs, leaf wired first or last), gadget groups and interacting gadget groups, each also with all edges inserted in the opposite order and with an id gap (two vertices created and removed first)", true, None, t0, stats);
}

/// Rule-targeted neighbourhood families: stars, double stars, gadget pairs.
pub fn targeted_family(k: usize) -> Vec<DiagSpec> {
    let mut out = vec![];
    // local complementation stars: centre phase in {1/2,-1/2,0,1}, n <= k+2 neighbours (Z, phases from a small set),
    // every Hadamard-edge subset among neighbours, each neighbour optionally carrying a boundary
    for n in 0..=(k + 2).min(4) {
        let npairs = n * n.saturating_sub(1) / 2;
        for centre in [(1i16, 2i16), (-1, 2), (1, 1), (0, 1)] {
            for em in 0..(1u32 << npairs) {
                for bm in 0..(1u32 << n) {
                    let mut d = DiagSpec::empty();
                    let c = d.add(1, centre);
                    let ns: Vec<u8> = (0..n).map(|i| d.add(1, [(0, 1), (1, 4), (1, 2), (1, 1)][i % 4])).collect();
                    for &x in &ns {
                        d.edges.push((c, x, true));
                    }
                    let mut e = 0;
                    for i in 0..n {
                        for j in i + 1..n {
                            if (em >> e) & 1 == 1 {
                                d.edges.push((ns[i], ns[j], true));
                            }
                            e += 1;
                        }
                    }
                    for i in 0..n {
                        if (bm >> i) & 1 == 1 {
                            let b = d.add(0, (0, 1));
                            d.edges.push((ns[i], b, i % 2 == 1));
                            d.outputs.push(b);
                        }
                    }
                    out.push(d);
                }
            }
        }
    }
    // pivot double stars: v0 - v1 Hadamard, k0 exclusive nbrs of v0, k1 of v1, k2 common; edges among nbrs: every subset (<= 6 nbrs => <= 15 pairs, capped)
    let kk = k.min(2);
    for k0 in 0..=kk {
        for k1 in 0..=kk {
            for k2 in 0..=kk {
                let n = k0 + k1 + k2;
                let npairs = n * n.saturating_sub(1) / 2;
                if npairs > 10 {
                    continue;
                }
                for (p0, p1) in [((0i16, 1i16), (0i16, 1i16)), ((1, 1), (0, 1)), ((0, 1), (1, 1)), ((1, 1), (1, 1)), ((1, 4), (0, 1)), ((1, 2), (1, 1)), ((1, 4), (3, 4))] {
                    for em in 0..(1u32 << npairs) {
                        for bvariant in 0..3 {
                            let mut d = DiagSpec::empty();
                            let v0 = d.add(1, p0);
                            let v1 = d.add(1, p1);
                            d.edges.push((v0, v1, true));
                            let ns: Vec<u8> = (0..n).map(|i| d.add(1, [(1, 4), (0, 1), (1, 2), (1, 1), (-1, 4), (-1, 2)][i % 6])).collect();
                            for i in 0..n {
                                if i < k0 || i >= k0 + k1 {
                                    d.edges.push((v0, ns[i], true));
                                }
                                if i >= k0 {
                                    d.edges.push((v1, ns[i], true));
                                }
                            }
                            let mut e = 0;
                            for i in 0..n {
                                for j in i + 1..n {
                                    if (em >> e) & 1 == 1 {
                                        d.edges.push((ns[i], ns[j], true));
                                    }
                                    e += 1;
                                }
                            }
                            // boundary variants: none; one boundary on v0 (plain); boundaries on v0 (Hadamard) and v1 (plain)
                            if bvariant >= 1 {
                                let b = d.add(0, (0, 1));
                                d.edges.push((v0, b, bvariant == 2));
                                d.inputs.push(b);
                            }
                            if bvariant == 2 {
                                let b = d.add(0, (0, 1));
                                d.edges.push((v1, b, false));
                                d.outputs.push(b);
                            }
                            // every neighbour gets an output so that nothing is trivially zero
                            for i in 0..n {
                                if i % 2 == 0 {
                                    let b = d.add(0, (0, 1));
                                    d.edges.push((ns[i], b, false));
                                    d.outputs.push(b);
                                }
                            }
                            out.push(d);
                        }
                    }
                }
            }
        }
    }
    // gadget pairs: two hubs (phase 0) each with one leaf, shared neighbourhood of size m (0..=3) with every subset attached to each hub
    for m in 0..=3usize {
        for s0 in 0..(1u32 << m) {
            for s1 in 0..(1u32 << m) {
                for (l0, l1) in [((1i16, 4i16), (1i16, 4i16)), ((1, 4), (3, 4)), ((1, 2), (1, 1)), ((0, 1), (1, 4))] {
                    for hubph in [(0i16, 1i16), (1, 1)] {
                        // variants: which supports carry an output (all / none / all but the first: a support without an
                        // output can have the two hubs as its only neighbours), and whether the leaf is wired before or
                        // after the supports (the order of a hub's adjacency list)
                        for variant in 0..(if m == 0 { 1 } else { 6 }) {
                            let (outs, leaf_last) = (variant % 3, variant >= 3);
                            let mut d = DiagSpec::empty();
                            let h0 = d.add(1, hubph);
                            let h1 = d.add(1, (0, 1));
                            let a = d.add(1, l0);
                            let b = d.add(1, l1);
                            if !leaf_last {
                                d.edges.push((h0, a, true));
                                d.edges.push((h1, b, true));
                            }
                            let ns: Vec<u8> = (0..m).map(|i| d.add(1, [(0, 1), (1, 4), (1, 2)][i % 3])).collect();
                            for i in 0..m {
                                if (s0 >> i) & 1 == 1 {
                                    d.edges.push((h0, ns[i], true));
                                }
                                if (s1 >> i) & 1 == 1 {
                                    d.edges.push((h1, ns[i], true));
                                }
                                if outs == 0 || (outs == 2 && i > 0) {
                                    let bb = d.add(0, (0, 1));
                                    d.edges.push((ns[i], bb, false));
                                    d.outputs.push(bb);
                                }
                            }
                            if leaf_last {
                                d.edges.push((h0, a, true));
                                d.edges.push((h1, b, true));
                            }
                            out.push(d);
                        }
                    }
                }
            }
        }
    }
    // gadget groups: k = 2..4 gadgets over the same support of size m = 1..3 (group fusion scalars depend on k),
    // optionally one extra gadget on a strict subset of the support
    for m in 1..=3usize {
        for kk in 2..=4usize {
            for extra in 0..2 {
                for phs in [[(1i16, 4i16), (1, 4), (1, 4), (1, 4)], [(1, 4), (3, 4), (1, 2), (-1, 4)], [(1, 1), (1, 4), (0, 1), (1, 2)]] {
                    if extra == 1 && m == 1 {
                        continue;
                    }
                    let mut d = DiagSpec::empty();
                    let ns: Vec<u8> = (0..m).map(|i| d.add(1, [(0, 1), (1, 4), (1, 2)][i % 3])).collect();
                    for j in 0..kk {
                        let h = d.add(1, (0, 1));
                        let l = d.add(1, phs[j]);
                        d.edges.push((h, l, true));
                        for &x in &ns {
                            d.edges.push((h, x, true));
                        }
                    }
                    if extra == 1 {
                        let h = d.add(1, (0, 1));
                        let l = d.add(1, (1, 4));
                        d.edges.push((h, l, true));
                        for &x in &ns[..m - 1] {
                            d.edges.push((h, x, true));
                        }
                    }
                    for &x in &ns {
                        let b = d.add(0, (0, 1));
                        d.edges.push((x, b, false));
                        d.outputs.push(b);
                    }
                    out.push(d);
                }
            }
        }
    }
    // interacting gadget groups: every hub of one group is adjacent to every hub of the other groups, so each group's
    // support contains the hubs of the others and fusing one group shrinks the support of the next (2 or 3 groups of
    // 1..3 gadgets, each group optionally with one plain support spider that carries an output)
    let leafph = [[(1i16, 4i16), (1, 4), (1, 4)], [(1, 4), (3, 4), (1, 2)], [(-1, 4), (1, 1), (1, 4)]];
    let mut groupings: Vec<Vec<usize>> = vec![];
    for ka in 1..=3usize {
        for kb in 1..=3usize {
            if ka + kb > 2 {
                groupings.push(vec![ka, kb]);
            }
        }
    }
    groupings.push(vec![2, 2, 2]);
    groupings.push(vec![2, 1, 2]);
    for sizes in &groupings {
        for plain in 0..(1u32 << sizes.len()) {
            for phs in &leafph {
                let mut d = DiagSpec::empty();
                let mut hubs: Vec<Vec<u8>> = vec![];
                for (gi, &kg) in sizes.iter().enumerate() {
                    let mut hs = vec![];
                    for j in 0..kg {
                        let h = d.add(1, (0, 1));
                        let l = d.add(1, phs[(j + gi) % 3]);
                        d.edges.push((h, l, true));
                        hs.push(h);
                    }
                    if (plain >> gi) & 1 == 1 {
                        let x = d.add(1, [(0, 1), (1, 4), (1, 2)][gi % 3]);
                        for &h in &hs {
                            d.edges.push((h, x, true));
                        }
                        let b = d.add(0, (0, 1));
                        d.edges.push((x, b, false));
                        d.outputs.push(b);
                    }
                    hubs.push(hs);
                }
                for a in 0..hubs.len() {
                    for b in a + 1..hubs.len() {
                        for &u in &hubs[a] {
                            for &w in &hubs[b] {
                                d.edges.push((u, w, true));
                            }
                        }
                    }
                }
                out.push(d);
            }
        }
    }
    out
}

/// Gadget webs W(g, s): g phase gadgets (hub of phase 0 or, for the first, pi; one leaf each) and s plain support
/// spiders carrying an output; EVERY choice of hub-hub Hadamard edges and EVERY attachment of every hub to a subset of
/// the supports. Covers gadget groups with equal, nested, disjoint and mutually supporting neighbourhoods at once.
/// The i-th diagram of the family is decoded from its index (so the family can be swept as a range).
pub fn gadget_web_count(g: usize, s: usize) -> u64 {
    let hh = g * (g - 1) / 2;
    (1u64 << hh) * (1u64 << (s * g)) * 4
}
pub fn gadget_web_at(g: usize, s: usize, idx: u64) -> DiagSpec {
    gadget_web_at_opt(g, s, idx, false)
}
/// `closed`: the support spiders carry no outputs (a scalar diagram, for the decomposer)
pub fn gadget_web_at_opt(g: usize, s: usize, mut idx: u64, closed: bool) -> DiagSpec {
    let hh = g * (g - 1) / 2;
    let variant = (idx % 4) as usize;
    idx /= 4;
    let em = idx & ((1 << hh) - 1);
    idx >>= hh;
    let leafph = [[(1i16, 4i16), (1, 4), (1, 4), (1, 4)], [(1, 4), (3, 4), (1, 2), (-1, 4)], [(1, 1), (1, 4), (0, 1), (1, 2)], [(1, 4), (1, 4), (3, 4), (3, 4)]];
    let mut d = DiagSpec::empty();
    let sup: Vec<u8> = (0..s).map(|i| d.add(1, [(0, 1), (1, 4)][i % 2])).collect();
    let mut hubs = vec![];
    for j in 0..g {
        let h = d.add(1, if j == 0 && variant == 2 { (1, 1) } else { (0, 1) });
        let l = d.add(1, leafph[variant][j % 4]);
        d.edges.push((h, l, true));
        for (i, &x) in sup.iter().enumerate() {
            if (idx >> (j * s + i)) & 1 == 1 {
                d.edges.push((h, x, true));
            }
        }
        hubs.push(h);
    }
    let mut e = 0;
    for a in 0..g {
        for b in a + 1..g {
            if (em >> e) & 1 == 1 {
                d.edges.push((hubs[a], hubs[b], true));
            }
            e += 1;
        }
    }
    if !closed {
        for &x in &sup {
            let b = d.add(0, (0, 1));
            d.edges.push((x, b, false));
            d.outputs.push(b);
        }
    }
    d
}

pub fn replay(w: &Value) -> Option<Violation> {
    let spec = DiagSpec::from_json(&w["spec"])?;
    let mut st = Stats::default();
    if w["kind"] == "divergence" {
        on_both_backends(&mut st, &spec, None);
    } else {
        let rule = w["rule"].as_str()?.to_string();
        let args: Vec<V> = w["args"].as_array()?.iter().map(|x| x.as_u64().unwrap() as usize).collect();
        let nvars = w["nvars"].as_u64().map(|x| x as u32);
        if w["backend"] == "hash" {
            all_rules_on::<quizx::hash_graph::Graph>(&mut st, &spec, "hash", nvars, Some((&rule, &args)));
        } else {
            all_rules_on::<quizx::vec_graph::Graph>(&mut st, &spec, "vec", nvars, Some((&rule, &args)));
        }
    }
    println!("replayed {} judgement(s)", st.get("evaluations"));
    st.viols.into_values().next().map(|(_, v)| v)
}
