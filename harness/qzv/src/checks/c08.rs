//! C08 — tensor evaluation of diagrams and circuits agrees with the reference semantics, entry by entry,
//! in both number types; the comparison helpers decide exactly what they claim.

use crate::conv::*;
use crate::gen::*;
use crate::report::*;
use crate::{sweep, sweep_range};
use num::complex::Complex64;
use quizx::circuit::Circuit;
use quizx::gate::GType;
use quizx::graph::*;
use quizx::scalar::Scalar4;
use quizx::tensor::{CompareTensors, Tensor4, TensorF, ToTensor};
use crate::conv::Tensor;
use qzv_ref::ring::*;
use serde_json::{json, Value};
use std::time::Instant;

fn t4_to_exact(t: &Tensor4) -> Option<Vec<Zw>> {
    t.iter().map(scalar_exact).collect()
}

fn shape_ok(shape: &[usize], n: usize) -> bool {
    shape.len() == n && shape.iter().all(|&d| d == 2)
}

fn judge_graph<G: GraphLike>(st: &mut Stats, g: &G, seed: &Value, backend: &'static str) {
    let want = eval_graph(g, None);
    if want.is_bad() {
        st.inc("skipped_unevaluable_input");
        return;
    }
    let n = g.inputs().len() + g.outputs().len();
    let wit = |what: &str| json!({"kind": "graph", "seed": seed, "backend": backend, "what": what});
    st.inc("evaluations");
    match guarded(|| g.to_tensor4()) {
        Err(p) => st.violation(Violation { sig: format!("to_tensor4|panic|{}", last_panic_site()), detail: format!("to_tensor4 panicked: {}", p), witness: wit("t4") }),
        Ok(t) => {
            if !shape_ok(t.shape(), n) {
                st.violation(Violation { sig: "to_tensor4|shape".into(), detail: format!("shape {:?}, expected {} binary indices", t.shape(), n), witness: wit("t4") });
            } else {
                match (t4_to_exact(&t), &want) {
                    (Some(got), Tensor::Exact(w)) => {
                        if !tensor_eq(&got, w, 0.0) {
                            st.violation(Violation { sig: "to_tensor4|wrong-entry".into(), detail: format!("got {} want {}", Tensor::Exact(got).show(), want.show()), witness: wit("t4") });
                        } else {
                            st.inc("nontrivial");
                        }
                    }
                    (Some(got), w) => {
                        // exact result for an input on the tolerance track
                        if !tensors_equal(&Tensor::Exact(got.clone()), w) {
                            st.violation(Violation { sig: "to_tensor4|wrong-entry-tol".into(), detail: format!("got {} want {}", Tensor::Exact(got).show(), want.show()), witness: wit("t4") });
                        }
                    }
                    (None, w) => {
                        // approx-flagged entries: compare the represented values at tolerance
                        let got: Vec<Cf> = t.iter().map(|s| Cf(scalar_c64(s))).collect();
                        let scale = w.noise_scale().max(1.0);
                        if !tensors_equal(&Tensor::Float(got.clone(), scale), w) {
                            st.violation(Violation { sig: "to_tensor4|wrong-entry-approx".into(), detail: format!("got {} want {}", Tensor::Float(got, scale).show(), want.show()), witness: wit("t4") });
                        }
                    }
                }
            }
        }
    }
    st.inc("evaluations");
    match guarded(|| g.to_tensorf()) {
        Err(p) => st.violation(Violation { sig: format!("to_tensorf|panic|{}", last_panic_site()), detail: format!("to_tensorf panicked: {}", p), witness: wit("tf") }),
        Ok(t) => {
            if !shape_ok(t.shape(), n) {
                st.violation(Violation { sig: "to_tensorf|shape".into(), detail: format!("shape {:?}, expected {} binary indices", t.shape(), n), witness: wit("tf") });
            } else {
                let got: Vec<Cf> = t.iter().map(|c| Cf(Complex64::new(c.re, c.im))).collect();
                let bound = scalar_c64(g.scalar()).norm() * ((g.num_vertices() - n) as f64).exp2();
                let gt = Tensor::Float(got, bound.max(f64::MIN_POSITIVE));
                if !tensors_equal(&gt, &want) {
                    st.violation(Violation { sig: "to_tensorf|wrong-entry".into(), detail: format!("got {} want {}", gt.show(), want.show()), witness: wit("tf") });
                } else {
                    st.inc("nontrivial");
                }
            }
        }
    }
}

/// cosmetic data (drawing coordinates) in three layouts that are not the left-to-right circuit layout: the value of a
/// diagram, and the order of its tensor indices (inputs then outputs, in list order), must not depend on it
fn set_layout<G: GraphLike>(g: &mut G, layout: u64) {
    let ins: Vec<V> = g.inputs().clone();
    let vs: Vec<V> = g.vertices().collect();
    for v in vs {
        let (row, qubit) = match layout {
            1 => (-(v as f64), (v % 2) as f64),
            2 => (((v * 7) % 5) as f64 - 2.5, -(v as f64)),
            _ => (if ins.contains(&v) { 10.0 } else if g.vertex_type(v) == VType::B { 0.0 } else { 5.0 - v as f64 }, 1.0),
        };
        g.set_row(v, row);
        g.set_qubit(v, qubit);
    }
}

fn on_spec(st: &mut Stats, spec: &DiagSpec) {
    st.inc("cases");
    let seed = json!({"diagram": spec.to_json()});
    judge_graph(st, &spec.build::<quizx::vec_graph::Graph>(), &seed, "vec");
    judge_graph(st, &spec.build::<quizx::hash_graph::Graph>(), &seed, "hash");
    if !spec.inputs.is_empty() || !spec.outputs.is_empty() {
        for layout in 1..=3u64 {
            let seed = json!({"diagram": spec.to_json(), "layout": layout});
            let mut g = spec.build::<quizx::vec_graph::Graph>();
            set_layout(&mut g, layout);
            judge_graph(st, &g, &seed, "vec");
        }
    }
    st.sample(2, || seed.clone());
}

fn circuit_supported(c: &Circuit) -> bool {
    c.gates.iter().all(|g| !matches!(g.t, GType::ParityPhase | GType::InitAncilla | GType::PostSelect | GType::Measure | GType::MeasureReset | GType::UnknownGate))
}

fn judge_circuit(st: &mut Stats, c: &Circuit) {
    st.inc("cases");
    let seed = json!({"circuit": circuit_json(c)});
    let wit = |what: &str| json!({"kind": "circuit", "seed": seed, "what": what});
    // circuit-derived diagram through the graph evaluator
    let g: quizx::vec_graph::Graph = c.to_graph();
    judge_graph(st, &g, &seed, "vec");
    // the adjoint diagram keeps its drawing coordinates (outputs now on the left) and a re-laid-out copy
    {
        let seed = json!({"circuit": circuit_json(c), "adjoint": true});
        judge_graph(st, &g.to_adjoint(), &seed, "vec");
        let seed = json!({"circuit": circuit_json(c), "layout": 2});
        let mut g2 = g.clone();
        set_layout(&mut g2, 2);
        judge_graph(st, &g2, &seed, "vec");
    }
    if !circuit_supported(c) {
        // documented as unsupported: must panic with that message and nothing else
        st.inc("evaluations");
        match guarded(|| c.to_tensor4()) {
            Err(p) if p.contains("Unsupported gate") => st.inc("nontrivial"),
            Err(p) => st.violation(Violation { sig: "circuit.to_tensor4|unsupported-wrong-panic".into(), detail: p, witness: wit("c4") }),
            Ok(_) => st.violation(Violation { sig: "circuit.to_tensor4|unsupported-silently-evaluated".into(), detail: "a gate documented as unsupported was evaluated".into(), witness: wit("c4") }),
        }
        return;
    }
    let rc = to_rcircuit(c, &[]).unwrap();
    let (want, _, _) = sim_circuit(&rc);
    let n = 2 * c.num_qubits();
    st.inc("evaluations");
    match guarded(|| c.to_tensor4()) {
        Err(p) => st.violation(Violation { sig: format!("circuit.to_tensor4|panic|{}", last_panic_site()), detail: p, witness: wit("c4") }),
        Ok(t) => {
            let got = match t4_to_exact(&t) {
                Some(e) => Tensor::Exact(e),
                None => Tensor::Float(t.iter().map(|s| Cf(scalar_c64(s))).collect(), (c.num_qubits() as f64).exp2()),
            };
            if !shape_ok(t.shape(), n) || !tensors_equal(&got, &want) {
                st.violation(Violation { sig: "circuit.to_tensor4|wrong-entry".into(), detail: format!("got {} want {}", got.show(), want.show()), witness: wit("c4") });
            } else {
                st.inc("nontrivial");
            }
        }
    }
    st.inc("evaluations");
    match guarded(|| c.to_tensorf()) {
        Err(p) => st.violation(Violation { sig: format!("circuit.to_tensorf|panic|{}", last_panic_site()), detail: p, witness: wit("cf") }),
        Ok(t) => {
            let got = Tensor::Float(t.iter().map(|x| Cf(Complex64::new(x.re, x.im))).collect(), (c.num_qubits() as f64).exp2());
            if !shape_ok(t.shape(), n) || !tensors_equal(&got, &want) {
                st.violation(Violation { sig: "circuit.to_tensorf|wrong-entry".into(), detail: format!("got {} want {}", got.show(), want.show()), witness: wit("cf") });
            } else {
                st.inc("nontrivial");
            }
        }
    }
}

/// values whose float arithmetic is exact, so the float helpers can be judged exactly too
fn helper_values() -> Vec<(Scalar4, Zw)> {
    let mk = |c: [i64; 4], p: i32| (Scalar4::new(c, p), Zw::new(c, 2 * p));
    let mut v = vec![mk([0, 0, 0, 0], 0), mk([1, 0, 0, 0], 0), mk([-1, 0, 0, 0], 0), mk([0, 0, 1, 0], 0), mk([2, 0, 0, 0], 0), mk([1, 0, 0, 0], -1), mk([0, 1, 0, 0], 0), mk([0, 1, 0, -1], -1)];
    // last: a zero that carries the approx flag (what a cancellation of approximate values leaves behind); it is zero
    // for every helper, only `==` (which compares flags) is not judged on it
    v.push((Scalar4::real(0.0), Zw::new([0, 0, 0, 0], 0)));
    v
}

fn helpers(st: &mut Stats, quick: bool) {
    use ndarray::{ArrayD, IxDyn};
    let vals = helper_values();
    let nv = vals.len();
    let shapes: Vec<Vec<usize>> = vec![vec![], vec![2], vec![2, 2]];
    let mut tensors: Vec<(Vec<usize>, Vec<usize>)> = vec![]; // (shape, value indices)
    for sh in &shapes {
        let len: usize = sh.iter().product();
        let lim = if quick && len == 4 { 6 } else { nv };
        let total = lim.pow(len as u32);
        for mut k in 0..total {
            let mut ix = vec![];
            for _ in 0..len {
                ix.push(k % lim);
                k /= lim;
            }
            tensors.push((sh.clone(), ix));
        }
    }
    let stats = sweep(&tensors, |st, _, (sa, ia)| {
        let ta: Tensor4 = ArrayD::from_shape_vec(IxDyn(sa), ia.iter().map(|&i| vals[i].0).collect()).unwrap();
        let ea: Vec<Zw> = ia.iter().map(|&i| vals[i].1.clone()).collect();
        // float helper only over values with exact float arithmetic (no sqrt2 parts)
        let float_ok_a = ia.iter().all(|&i| i < 6);
        let fa: TensorF = ta.mapv(|s| { let c = scalar_c64(&s); num::Complex::new(c.re, c.im) });
        for (sb, ib) in &tensors {
            st.inc("cases");
            st.inc("evaluations");
            let tb: Tensor4 = ArrayD::from_shape_vec(IxDyn(sb), ib.iter().map(|&i| vals[i].0).collect()).unwrap();
            let eb: Vec<Zw> = ib.iter().map(|&i| vals[i].1.clone()).collect();
            let want_prop = sa == sb && tensor_prop(&ea, &eb, 0.0);
            let want_eq = sa == sb && tensor_eq(&ea, &eb, 0.0);
            let wit = || json!({"kind": "helper", "shape_a": sa, "a": ia, "shape_b": sb, "b": ib, "values": "index into [0,1,-1,i,2,1/2,omega,sqrt2/2... see helper_values()]"});
            // a flagged zero next to non-zero entries: the verdict then rests on Scalar4's `==`, which compares flags as well
            // (a choice of the library, not fixed by the property); judged where one side is entirely zero
            let flagged = ia.iter().chain(ib.iter()).any(|&i| i == nv - 1);
            let judged = !flagged || ea.iter().all(|x| x.is_zero()) || eb.iter().all(|x| x.is_zero());
            match guarded(|| Tensor4::scalar_eq(&ta, &tb)) {
                Err(p) => st.violation(Violation { sig: "scalar_eq|panic".into(), detail: p, witness: wit() }),
                Ok(_) if !judged => st.inc("flagged_zero_pairs_not_judged"),
                Ok(got) => {
                    if got != want_prop {
                        st.violation(Violation { sig: format!("scalar_eq|wrong|got={}", got), detail: format!("Tensor4::scalar_eq = {}, definition says {}", got, want_prop), witness: wit() });
                    } else if want_prop && !want_eq {
                        st.inc("nontrivial");
                    }
                }
            }
            if !flagged && (ta == tb) != want_eq {
                st.violation(Violation { sig: "tensor4-eq|wrong".into(), detail: format!("== gives {}, definition says {}", ta == tb, want_eq), witness: wit() });
            }
            if float_ok_a && ib.iter().all(|&i| i < 6) {
                let fb: TensorF = tb.mapv(|s| { let c = scalar_c64(&s); num::Complex::new(c.re, c.im) });
                st.inc("evaluations");
                match guarded(|| TensorF::scalar_eq(&fa, &fb)) {
                    Err(p) => st.violation(Violation { sig: "scalar_eq_f|panic".into(), detail: p, witness: wit() }),
                    Ok(got) => {
                        if got != want_prop {
                            st.violation(Violation { sig: format!("scalar_eq_f|wrong|got={}", got), detail: format!("TensorF::scalar_eq = {}, definition says {}", got, want_prop), witness: wit() });
                        }
                    }
                }
            }
        }
    });
    *st = std::mem::take(st).merge(stats);
}

/// CompareTensors::compare / scalar_compare on pairs of diagrams (they evaluate their arguments themselves)
fn compare_pairs(st: &mut Stats, quick: bool) {
    let mut all: Vec<DiagSpec> = vec![];
    let phis: Vec<Ph> = if quick { vec![(0, 1), (1, 4), (1, 1)] } else { PHI6.to_vec() };
    for base in structures_upto(1, 2, false) {
        for_phases(&base, &phis, |d| all.push(d.clone()));
    }
    let graphs: Vec<quizx::vec_graph::Graph> = all
        .iter()
        .enumerate()
        .map(|(i, d)| {
            let mut g: quizx::vec_graph::Graph = d.build();
            // a few different scalars so that proportional-but-unequal pairs occur
            match i % 3 {
                1 => g.scalar_mut().mul_sqrt2_pow(1),
                2 => g.scalar_mut().mul_phase(num::Rational64::new(1, 4)),
                _ => {}
            }
            g
        })
        .collect();
    let tens: Vec<Tensor> = graphs.iter().map(|g| eval_graph(g, None)).collect();
    let stats = sweep(&graphs, |st, i, a| {
        for (j, b) in graphs.iter().enumerate() {
            if all[i].inputs.len() + all[i].outputs.len() != all[j].inputs.len() + all[j].outputs.len() {
                continue; // different tensor ranks: out of the helpers' stated domain for compare (== on different shapes)
            }
            st.inc("cases");
            st.inc("evaluations");
            let (eq, prop) = (tensors_equal(&tens[i], &tens[j]), tensors_prop(&tens[i], &tens[j]));
            let wit = || json!({"kind": "compare", "a": all[i].to_json(), "b": all[j].to_json(), "scalars": [i % 3, j % 3]});
            match guarded(|| (Tensor4::compare(a, b), Tensor4::scalar_compare(a, b))) {
                Err(p) => st.violation(Violation { sig: "compare|panic".into(), detail: p, witness: wit() }),
                Ok((c, sc)) => {
                    if c != eq {
                        st.violation(Violation { sig: format!("compare|wrong|got={}", c), detail: format!("Tensor4::compare = {}, the diagrams' reference tensors are equal = {}", c, eq), witness: wit() });
                    } else if sc != prop {
                        st.violation(Violation { sig: format!("scalar_compare|wrong|got={}", sc), detail: format!("Tensor4::scalar_compare = {}, proportional = {}", sc, prop), witness: wit() });
                    } else if prop && !eq {
                        st.inc("nontrivial");
                    }
                }
            }
        }
    });
    *st = std::mem::take(st).merge(stats);
}

pub fn run(rep: &mut Report) {
    rep.rule = "case = one diagram or circuit (per back end) or one ordered pair of small tensors; every tensor entry is compared with the reference state sum / gate-matrix product; non-trivial = evaluated without panic and agreed entry by entry (helpers: proportional-but-unequal pairs)".into();
    rep.assume("Tensor4 entries are read through the raw-parts hook; TensorF compared at 1e-9 relative to the largest entry");
    let quick = rep.quick();
    let fams: Vec<(&str, usize, usize, bool, Vec<Ph>)> = if quick {
        let mut tol = PHI4.to_vec();
        tol.extend_from_slice(&PHI_TOL);
        vec![("D(2,2,Phi8)", 2, 2, false, PHI8.to_vec()), ("D(3,2,Phi2)", 3, 2, false, vec![(1, 4), (1, 1)]), ("D(2,1,Phi4+tol)", 2, 1, false, tol)]
    } else {
        let mut tol = PHI4.to_vec();
        tol.extend_from_slice(&PHI_TOL);
        vec![("D(2,3,Phi8)", 2, 3, false, PHI8.to_vec()), ("D(3,2,Phi6)", 3, 2, false, PHI6.to_vec()), ("D(3,2,Phi4)/bfirst", 3, 2, true, PHI4.to_vec()), ("D(2,2,Phi4+tol)", 2, 2, false, tol)]
    };
    for (name, s, b, bfirst, phis) in fams {
        let t0 = Instant::now();
        let structs = structures_upto(s, b, bfirst);
        let stats = sweep(&structs, |st, i, base| {
            for_phases(base, &phis, |spec| {
                watch_begin(i as u64, 0);
                on_spec(st, spec);
                watch_end();
            });
        });
        rep.absorb(name, &format!("all labelled diagrams <= {} spiders, <= {} boundaries (closed, disconnected, bare and Hadamard wires, X spiders, isolated spiders included), {} phases", s, b, phis.len()), true, None, t0, stats);
    }
    let cfams: Vec<(&str, usize, Vec<quizx::gate::Gate>, usize)> = if quick {
        vec![("K(2,2,A_full)", 2, alpha_full(2), 2), ("K(3,1,A_full)", 3, alpha_full(3), 1), ("K(2,3,A_ct)", 2, alpha_ct(2), 3), ("K(2,2,A_tol)", 2, alpha_tol(2), 2)]
    } else {
        vec![("K(2,3,A_full)", 2, alpha_full(2), 3), ("K(3,2,A_full)", 3, alpha_full(3), 2), ("K(3,3,A_ct)", 3, alpha_ct(3), 3), ("K(2,3,A_tol)", 2, alpha_tol(2), 3)]
    };
    for (name, q, alpha, d) in cfams {
        let t0 = Instant::now();
        let n = circuit_count(alpha.len(), d);
        let stats = sweep_range(n, |st, idx| {
            watch_begin(idx, 3);
            let c = circuit_at(q, &alpha, d, idx);
            judge_circuit(st, &c);
            st.sample(1, || json!({"circuit": circuit_json(&c)}));
            watch_end();
        });
        rep.absorb(name, &format!("every circuit with <= {} gates over {} gate instances on {} qubits: circuit evaluator vs gate-matrix simulator, and its diagram vs the state sum", d, alpha.len(), q), true, None, t0, stats);
    }
    {
        let t0 = Instant::now();
        let mut st = Stats::default();
        compare_pairs(&mut st, quick);
        rep.absorb("compare on diagram pairs", "Tensor4::compare / scalar_compare on every ordered pair of same-arity diagrams of D(1,2,Phi) with three different scalars, against equality / proportionality of the reference tensors", true, None, t0, st);
    }
    let t0 = Instant::now();
    let mut st = Stats::default();
    helpers(&mut st, quick);
    rep.absorb("helpers", "all ordered pairs of tensors of shape [], [2], [2,2] over {0,1,-1,i,2,1/2,omega,1/sqrt2}: scalar_eq and == against their definitions", true, None, t0, st);
}

pub fn replay(w: &Value) -> Option<Violation> {
    let mut st = Stats::default();
    match w["kind"].as_str()? {
        "graph" | "circuit" => {
            let seed = &w["seed"];
            if let Some(spec) = DiagSpec::from_json(&seed["diagram"]) {
                if let Some(layout) = seed["layout"].as_u64() {
                    let mut g = spec.build::<quizx::vec_graph::Graph>();
                    set_layout(&mut g, layout);
                    judge_graph(&mut st, &g, seed, "vec");
                } else if w["backend"] == "hash" {
                    judge_graph(&mut st, &spec.build::<quizx::hash_graph::Graph>(), seed, "hash");
                } else {
                    judge_graph(&mut st, &spec.build::<quizx::vec_graph::Graph>(), seed, "vec");
                }
            } else {
                let c = circuit_from_json(&seed["circuit"])?;
                judge_circuit(&mut st, &c);
            }
        }
        _ => {
            println!("helper pairs are re-run as a family");
            helpers(&mut st, false);
        }
    }
    st.viols.into_values().next().map(|(_, v)| v)
}
