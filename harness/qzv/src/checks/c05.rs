//! C05 — stabiliser decomposition computes the exact scalar for every driver, mode and schedule.
//!
//! E1: closed graph-like diagrams x {8 drivers} x {no, Clifford, full simplification} x {split off/on} x {sequential,
//!     parallel}; per-step clause through the one-step hook for every Decomp a driver can emit; saved terms.
//! E3: the random drivers with every announced draw enumerated.
//! E4: task-schedule search over the parallel-map seam with a cooperative scheduler (deviation bounded DFS), plus
//!     real rayon pools with 1..16 threads as a differential supplement.

use crate::conv::*;
use crate::gen::*;
use crate::report::*;
use crate::script;
use crate::sweep;
use quizx::decompose::*;
use quizx::graph::*;
use quizx::scalar::Scalar4;
use quizx::vec_graph::Graph;
use quizx::verif_hooks::par::{install_executor, ParExecutor};
use qzv_ref::ring::*;
use serde_json::{json, Value};
use std::cell::Cell;
use std::sync::{Arc, Condvar, Mutex};
use std::time::Instant;

// ---------------------------------------------------------------------------------------------
// inputs
// ---------------------------------------------------------------------------------------------

fn pairs(n: usize) -> Vec<(usize, usize)> {
    (0..n).flat_map(|i| (i + 1..n).map(move |j| (i, j))).collect()
}

/// closed graph-like diagram: Z spiders, Hadamard edges
pub fn glike(n: usize, mask: u32, phases: &[Ph]) -> DiagSpec {
    let mut d = DiagSpec::empty();
    for i in 0..n {
        d.add(1, phases[i]);
    }
    for (k, (a, b)) in pairs(n).into_iter().enumerate() {
        if (mask >> k) & 1 == 1 {
            d.edges.push((a as u8, b as u8, true));
        }
    }
    d
}

fn canon_mask(n: usize, mask: u32) -> u32 {
    let ps = pairs(n);
    let mut best = u32::MAX;
    let mut perm: Vec<usize> = (0..n).collect();
    fn heap(k: usize, perm: &mut Vec<usize>, f: &mut dyn FnMut(&[usize])) {
        if k <= 1 {
            f(perm);
            return;
        }
        for i in 0..k {
            heap(k - 1, perm, f);
            if k % 2 == 0 {
                perm.swap(i, k - 1)
            } else {
                perm.swap(0, k - 1)
            }
        }
    }
    heap(n, &mut perm, &mut |p| {
        let mut m = 0u32;
        for (k, &(a, b)) in ps.iter().enumerate() {
            if (mask >> k) & 1 == 1 {
                let (x, y) = (p[a].min(p[b]), p[a].max(p[b]));
                m |= 1 << ps.iter().position(|&e| e == (x, y)).unwrap();
            }
        }
        best = best.min(m);
    });
    best
}

fn phase_tuples(n: usize, phis: &[Ph]) -> Vec<Vec<Ph>> {
    let k = phis.len();
    (0..k.pow(n as u32))
        .map(|mut idx| {
            (0..n)
                .map(|_| {
                    let p = phis[idx % k];
                    idx /= k;
                    p
                })
                .collect()
        })
        .collect()
}

/// all graphs on exactly n vertices (labelled, or one per isomorphism class) x all phase tuples
pub fn glike_family(n: usize, labelled: bool, phis: &[Ph]) -> Vec<DiagSpec> {
    let np = pairs(n).len();
    let mut out = vec![];
    for m in 0..(1u32 << np) {
        if !labelled && canon_mask(n, m) != m {
            continue;
        }
        for ph in phase_tuples(n, phis) {
            out.push(glike(n, m, &ph));
        }
    }
    out
}

/// cat-k stars embedded in hosts
pub fn cat_family(quick: bool) -> Vec<DiagSpec> {
    let mut out = vec![];
    for k in 3..=6usize {
        let npairs = k * (k - 1) / 2;
        let edge_masks: Vec<u32> = if k <= 4 && !quick { (0..(1u32 << npairs)).collect() } else { vec![0, 1, 1 << (npairs - 1), (1 << npairs) - 1, 0b101 & ((1 << npairs) - 1), 1 | (1 << (k - 1))] };
        for hub in [(0i16, 1i16), (1, 1)] {
            for pat in 0..3 {
                for &em in &edge_masks {
                    for host in 0..3 {
                        let mut d = DiagSpec::empty();
                        let h = d.add(1, hub);
                        let legs: Vec<u8> = (0..k)
                            .map(|i| {
                                d.add(
                                    1,
                                    match pat {
                                        0 => (1, 4),
                                        1 => [(1, 4), (3, 4)][i % 2],
                                        _ => [(-1, 4), (1, 4), (-3, 4)][i % 3],
                                    },
                                )
                            })
                            .collect();
                        for &l in &legs {
                            d.edges.push((h, l, true));
                        }
                        let mut e = 0;
                        for i in 0..k {
                            for j in i + 1..k {
                                if (em >> e) & 1 == 1 {
                                    d.edges.push((legs[i], legs[j], true));
                                }
                                e += 1;
                            }
                        }
                        // host: Clifford neighbours outside the cat
                        if host >= 1 {
                            let c = d.add(1, (1, 2));
                            d.edges.push((legs[0], c, true));
                            d.edges.push((legs[1], c, true));
                        }
                        if host == 2 {
                            let c = d.add(1, (1, 1));
                            d.edges.push((legs[k - 1], c, true));
                            let t = d.add(1, (1, 4));
                            d.edges.push((c, t, true));
                        }
                        out.push(d);
                    }
                }
            }
        }
    }
    out
}

/// 6- and 7-T families: BSS-6, magic-5 and pair cuts get their preconditions
pub fn many_t_family() -> Vec<DiagSpec> {
    let mut out = vec![];
    for n in [6usize, 7] {
        for shape in 0..6 {
            for pat in 0..2 {
                let ph: Vec<Ph> = (0..n).map(|i| if pat == 0 { (1, 4) } else { [(1, 4), (3, 4), (-1, 4)][i % 3] }).collect();
                let mut d = DiagSpec::empty();
                for i in 0..n {
                    d.add(1, ph[i]);
                }
                let es: Vec<(usize, usize)> = match shape {
                    0 => vec![],
                    1 => (0..n - 1).map(|i| (i, i + 1)).collect(),
                    2 => (0..n).map(|i| (i, (i + 1) % n)).collect(),
                    3 => pairs(n),
                    4 => (1..n).map(|i| (0, i)).collect(),
                    _ => pairs(n).into_iter().filter(|(a, b)| (a + b) % 2 == 1).collect(),
                };
                for (a, b) in es {
                    d.edges.push((a as u8, b as u8, true));
                }
                out.push(d.clone());
                // with a Pauli hub of degree 4 between T spiders (pair-cut heuristics)
                let c = d.add(1, (0, 1));
                for i in 0..4 {
                    d.edges.push((i as u8, c, true));
                }
                out.push(d);
            }
        }
    }
    out
}

/// closed diagrams already in gadget form: k = 2..4 phase gadgets over the same support (size 2..3) — what
/// full simplification fuses between decomposition steps
pub fn gadget_group_family() -> Vec<DiagSpec> {
    let mut out = vec![];
    for m in 2..=3usize {
        for kk in 2..=4usize {
            for pat in 0..3 {
                for extra in 0..2 {
                    let mut d = DiagSpec::empty();
                    let ns: Vec<u8> = (0..m).map(|i| d.add(1, [(1, 4), (3, 4), (1, 2)][(i + pat) % 3])).collect();
                    for j in 0..kk {
                        let h = d.add(1, (0, 1));
                        let l = d.add(1, [(1, 4), (3, 4), (-1, 4), (1, 4)][(j + pat) % 4]);
                        d.edges.push((h, l, true));
                        for &x in &ns {
                            d.edges.push((h, x, true));
                        }
                    }
                    if extra == 1 {
                        d.edges.push((ns[0], ns[1], true));
                    }
                    out.push(d);
                }
            }
        }
    }
    out
}

// ---------------------------------------------------------------------------------------------
// drivers / configurations
// ---------------------------------------------------------------------------------------------

pub const DRIVERS: [&str; 8] = ["bss-first", "bss-random", "cats-first", "cats-random", "dynamic-t", "sherlock-1", "sherlock-10", "cutting"];
pub const SIMPS: [SimpFunc; 3] = [SimpFunc::NoSimp, SimpFunc::CliffordSimp, SimpFunc::FullSimp];

fn run_decomposer(g: &Graph, driver: &str, simp: SimpFunc, split: bool, parallel: bool) -> Scalar4 {
    let mut d = Decomposer::new(g);
    d.with_simp(simp).with_split_graphs_components(split);
    macro_rules! go {
        ($drv:expr) => {{
            if parallel {
                d.decompose_parallel(&$drv);
            } else {
                d.decompose(&$drv);
            }
        }};
    }
    match driver {
        "bss-first" => go!(BssTOnlyDriver { random_t: false }),
        "bss-random" => go!(BssTOnlyDriver { random_t: true }),
        "cats-first" => go!(BssWithCatsDriver { random_t: false }),
        "cats-random" => go!(BssWithCatsDriver { random_t: true }),
        "dynamic-t" => go!(DynamicTDriver),
        "sherlock-1" => go!(SherlockDriver { tries: vec![1, 1, 1] }),
        "sherlock-10" => go!(SherlockDriver { tries: vec![10, 10, 10] }),
        _ => go!(SpiderCuttingDriver),
    }
    d.scalar()
}

/// Operation histories on one Decomposer (the brief's "start from non-initial states"): a plan is a list of steps
///   U<k> = decompose_until_depth(k), D = decompose, P = decompose_parallel, S = decompose_standard,
///   R = set_target(the same diagram again)  (re-use of a finished decomposer)
/// returns the scalar after the last step and the saved terms
fn run_history(g: &Graph, driver: &str, simp: SimpFunc, split: bool, save: bool, plan: &[&str]) -> (Scalar4, Vec<Graph>, usize) {
    let mut d = Decomposer::new(g);
    d.with_simp(simp).with_split_graphs_components(split).with_save(save);
    macro_rules! step {
        ($drv:expr, $op:expr) => {{
            match $op {
                "D" => {
                    d.decompose(&$drv);
                }
                "P" => {
                    d.decompose_parallel(&$drv);
                }
                "S" => {
                    d.decompose_standard();
                }
                "R" => {
                    d.set_target(g.clone());
                }
                u => {
                    d.decompose_until_depth(u[1..].parse().unwrap(), &$drv);
                }
            }
        }};
    }
    for op in plan {
        match driver {
            "bss-first" => step!(BssTOnlyDriver { random_t: false }, *op),
            "bss-random" => step!(BssTOnlyDriver { random_t: true }, *op),
            "cats-first" => step!(BssWithCatsDriver { random_t: false }, *op),
            "cats-random" => step!(BssWithCatsDriver { random_t: true }, *op),
            "dynamic-t" => step!(DynamicTDriver, *op),
            "sherlock-1" => step!(SherlockDriver { tries: vec![1, 1, 1] }, *op),
            "sherlock-10" => step!(SherlockDriver { tries: vec![10, 10, 10] }, *op),
            _ => step!(SpiderCuttingDriver, *op),
        }
    }
    (d.scalar(), d.done.clone(), d.nterms)
}

pub const PLANS: [&[&str]; 9] = [&["U0", "D"], &["U1", "D"], &["U2", "D"], &["U1", "P"], &["U1", "U1", "D"], &["U2", "U1", "D"], &["D", "R", "D"], &["U1", "R", "D"], &["U1", "S"]];

/// histories on one closed diagram: the scalar after the last step is the diagram's value
pub fn judge_histories(st: &mut Stats, spec: &DiagSpec, only: Option<&Value>) {
    st.inc("cases");
    let g: Graph = spec.build();
    let Some(want) = want_scalar(&g) else { return };
    script::install_source();
    for driver in DRIVERS {
        for simp in SIMPS {
            for split in [false, true] {
                for plan in PLANS {
                    // decompose_standard uses its own driver: judged once
                    if plan.contains(&"S") && driver != "cats-first" {
                        continue;
                    }
                    let cfg = json!({"driver": driver, "simp": format!("{:?}", simp), "split": split, "plan": plan});
                    if let Some(o) = only {
                        if *o != cfg {
                            continue;
                        }
                    }
                    st.inc("evaluations");
                    script::begin(&[], usize::MAX);
                    let r = guarded(|| run_history(&g, driver, simp, split, false, plan).0);
                    let wit = || json!({"kind": "history", "spec": spec.to_json(), "config": cfg});
                    let cls = format!("{}|{:?}|split={}|{}", driver, simp, split, plan.join(","));
                    match r.map(|s| scalar_exact(&s)) {
                        Ok(Some(x)) if x.eqv(&want) => {
                            if g.tcount() > 0 {
                                st.inc("nontrivial")
                            }
                        }
                        Ok(x) => st.violation(Violation { sig: format!("history|wrong-scalar|{}", cls), detail: format!("{:?} vs {}", x.map(|z| z.key()), want.key()), witness: wit() }),
                        Err(p) => st.violation(Violation { sig: format!("history|panic|{}|{}", cls, p.rsplit(" @ ").next().unwrap_or("")), detail: p, witness: wit() }),
                    }
                }
            }
        }
    }
    script::remove_source();
}

fn want_scalar(g: &Graph) -> Option<Zw> {
    match eval_graph(g, None) {
        Tensor::Exact(v) if v.len() == 1 => Some(v[0].clone()),
        _ => None,
    }
}

fn cfg_json(driver: &str, simp: SimpFunc, split: bool, parallel: bool) -> Value {
    json!({"driver": driver, "simp": format!("{:?}", simp), "split": split, "parallel": parallel})
}

/// all configurations on one closed diagram
pub fn judge_configs(st: &mut Stats, spec: &DiagSpec, only: Option<&Value>, with_parallel: bool) {
    // the same diagram at three magnitudes: as it is, and with its global scalar times sqrt2^-80 (values around 1e-12:
    // "small" must never be taken for "zero") and sqrt2^90
    for scale in [0i32, -80, 90] {
        if let Some(o) = only {
            if o["scale"].as_i64().unwrap_or(0) as i32 != scale {
                continue;
            }
        }
        judge_configs_scaled(st, spec, only, with_parallel, scale);
    }
    // representation variants of the same diagram (the drivers take "the first T spiders" / "the first neighbour"):
    // edges inserted in the opposite order, and an id gap (two vertices created and removed first)
    if only.is_none() {
        let mut rev = spec.clone();
        rev.edges.reverse();
        judge_configs_scaled(st, &rev, None, with_parallel, 0);
        let mut gapped = spec.clone();
        gapped.gap = 2;
        judge_configs_scaled(st, &gapped, None, with_parallel, 0);
    }
}

fn judge_configs_scaled(st: &mut Stats, spec: &DiagSpec, only: Option<&Value>, with_parallel: bool, scale: i32) {
    st.inc("cases");
    let mut g: Graph = spec.build();
    g.scalar_mut().mul_sqrt2_pow(scale);
    let Some(want) = want_scalar(&g) else {
        st.inc("skipped_unevaluable_input");
        return;
    };
    let graph_like = true;
    script::install_source();
    for driver in DRIVERS {
        for simp in SIMPS {
            // the cat / pair-cut drivers assume graph-like input; our inputs are graph-like by construction
            let _ = graph_like;
            for split in [false, true] {
                for parallel in [false, true] {
                    if parallel && !with_parallel {
                        continue;
                    }
                    let mut cfg = cfg_json(driver, simp, split, parallel);
                    if scale != 0 {
                        cfg["scale"] = json!(scale);
                    }
                    if let Some(o) = only {
                        if *o != cfg {
                            continue;
                        }
                    }
                    st.inc("evaluations");
                    script::begin(&[], usize::MAX);
                    let r = guarded(|| run_decomposer(&g, driver, simp, split, parallel));
                    let wit = || json!({"kind": "config", "spec": spec.to_json(), "config": cfg});
                    let cls = format!("{}|{:?}|split={}|par={}{}", driver, simp, split, parallel, if scale != 0 { format!("|scale={}", scale) } else { String::new() });
                    match r {
                        Err(p) => st.violation(Violation { sig: format!("decompose|panic|{}|{}", cls, p.rsplit(" @ ").next().unwrap_or("")), detail: p, witness: wit() }),
                        Ok(s) => match scalar_exact(&s) {
                            None => st.violation(Violation { sig: format!("decompose|approximate-result|{}", cls), detail: format!("{:?}", s), witness: wit() }),
                            Some(got) => {
                                if !got.eqv(&want) {
                                    st.violation(Violation { sig: format!("decompose|wrong-scalar|{}", cls), detail: format!("decomposer {} diagram denotes {}", got.key(), want.key()), witness: wit() });
                                } else if g.tcount() > 0 {
                                    st.inc("nontrivial");
                                }
                            }
                        },
                    }
                }
            }
        }
    }
    script::remove_source();
}

// ---------------------------------------------------------------------------------------------
// per-step clause
// ---------------------------------------------------------------------------------------------

fn decomp_json(d: &Decomp) -> Value {
    json!(format!("{}", d))
}

/// every Decomp value some driver can emit on g
pub fn emittable(g: &Graph) -> Vec<Decomp> {
    let mut out: Vec<Decomp> = vec![];
    let ts: Vec<V> = g.vertices().filter(|&v| g.phase(v).is_t()).collect();
    if ts.is_empty() {
        return out;
    }
    // deterministic drivers' actual choices
    for d in [
        guarded(|| BssTOnlyDriver { random_t: false }.choose_decomp(g)),
        guarded(|| BssWithCatsDriver { random_t: false }.choose_decomp(g)),
        guarded(|| DynamicTDriver.choose_decomp(g)),
        guarded(|| SpiderCuttingDriver.choose_decomp(g)),
    ]
    .into_iter()
    .flatten()
    {
        out.push(d);
    }
    // every ordered selection random_ts can return (real function under the scripted RNG): TDecomp and the magic-5 prefix
    let mut sels: Vec<Vec<V>> = vec![];
    let gg = g.clone();
    script::explore(16, usize::MAX, 1000, || random_ts(&gg, &mut script::ScriptedRng), |e| {
        if let script::RunEnd::Done(v) = e.end {
            sels.push(v);
        }
    });
    for s in sels {
        if s.len() >= 5 {
            out.push(Decomp::Magic5FromCat(s[0..5].to_vec()));
        }
        out.push(Decomp::TDecomp(s));
    }
    // every single cut and every cat Sherlock's filter admits
    for &v in &ts {
        out.push(Decomp::SingleDecomp(vec![v]));
    }
    for v in g.vertices() {
        if g.vertex_type(v) == VType::Z && g.phase(v).is_pauli() {
            let ns = g.neighbor_vec(v);
            if (3..=6).contains(&ns.len()) && ns.iter().all(|&n| g.vertex_type(n) == VType::Z && g.phase(n).is_t() && g.edge_type(v, n) == EType::H) {
                // every rotation of the leg order (the first leg is special when the hub carries pi)
                for r in 0..ns.len() {
                    let mut res = vec![v];
                    res.extend(ns.iter().cycle().skip(r).take(ns.len()));
                    out.push(Decomp::CatDecomp(res));
                }
            }
        }
    }
    out
}

pub fn judge_steps(st: &mut Stats, spec: &DiagSpec, only: Option<&str>) {
    st.inc("cases");
    let g: Graph = spec.build();
    let Some(want) = want_scalar(&g) else { return };
    for d in emittable(&g) {
        let name = format!("{}", d);
        if let Some(o) = only {
            if o != name {
                continue;
            }
        }
        st.inc("evaluations");
        let kind = name.split(' ').next().unwrap_or("").to_string();
        let wit = || json!({"kind": "step", "spec": spec.to_json(), "decomp": decomp_json(&d)});
        match guarded(|| verif_apply_decomp(&g, &d)) {
            Err(p) => st.violation(Violation { sig: format!("step|panic|{}|{}", kind, p.rsplit(" @ ").next().unwrap_or("")), detail: format!("{}: {}", name, p), witness: wit() }),
            Ok(terms) => {
                let mut sum = Zw::zero();
                let mut bad = false;
                for t in &terms {
                    match want_scalar(t) {
                        Some(x) => sum = sum.add(&x),
                        None => bad = true,
                    }
                }
                if bad {
                    st.violation(Violation { sig: format!("step|malformed-term|{}", kind), detail: name.clone(), witness: wit() });
                } else if !sum.eqv(&want) {
                    st.violation(Violation { sig: format!("step|terms-do-not-sum|{}", kind), detail: format!("{}: {} terms sum to {}, the diagram denotes {}", name, terms.len(), sum.key(), want.key()), witness: wit() });
                } else {
                    st.inc("nontrivial");
                }
            }
        }
    }
}

// ---------------------------------------------------------------------------------------------
// saved terms (open diagrams)
// ---------------------------------------------------------------------------------------------

pub fn judge_saved(st: &mut Stats, spec: &DiagSpec) {
    st.inc("cases");
    let g: Graph = spec.build();
    let want = eval_graph(&g, None);
    let Tensor::Exact(wv) = &want else { return };
    const SAVED_PLANS: [&[&str]; 7] = [&["D"], &["P"], &["U0", "D"], &["U1", "D"], &["U2", "D"], &["U1", "U1", "D"], &["U1", "P"]];
    for (dname, _cats) in [("bss-first", false), ("cats-first", true)] {
        for simp in SIMPS {
          for plan in SAVED_PLANS {
            st.inc("evaluations");
            let wit = || json!({"kind": "saved", "spec": spec.to_json(), "driver": dname, "simp": format!("{:?}", simp), "plan": plan});
            let r = guarded(|| run_history(&g, dname, simp, false, true, plan).1);
            let cls = if plan.len() == 1 { format!("{}|{:?}", dname, simp) } else { format!("{}|{:?}|{}", dname, simp, plan.join(",")) };
            match r {
                Err(p) => st.violation(Violation { sig: format!("saved|panic|{}|{}", cls, p.rsplit(" @ ").next().unwrap_or("")), detail: p, witness: wit() }),
                Ok(done) => {
                    let mut sum: Vec<Zw> = vec![Zw::zero(); wv.len()];
                    let mut problem = None;
                    for t in &done {
                        if t.tcount() != 0 {
                            problem = Some("a saved term still has a non-Clifford spider".to_string());
                            break;
                        }
                        match eval_graph(t, None) {
                            Tensor::Exact(v) if v.len() == sum.len() => {
                                for (a, b) in sum.iter_mut().zip(&v) {
                                    *a = a.add(b);
                                }
                            }
                            other => {
                                problem = Some(format!("a saved term is not an evaluable diagram of the same arity: {}", other.show()));
                                break;
                            }
                        }
                    }
                    match problem {
                        Some(p) => st.violation(Violation { sig: format!("saved|bad-term|{}", cls), detail: p, witness: wit() }),
                        None => {
                            if !tensor_eq(&sum, wv, 0.0) {
                                st.violation(Violation { sig: format!("saved|terms-do-not-sum|{}", cls), detail: format!("{} saved terms sum to {} but the diagram denotes {}", done.len(), Tensor::Exact(sum).show(), want.show()), witness: wit() });
                            } else if g.tcount() > 0 {
                                st.inc("nontrivial");
                            }
                        }
                    }
                }
            }
          }
        }
    }
}

/// graph-like diagrams with outputs: every spider may carry one output through a plain or Hadamard edge
fn open_family(n: usize, phis: &[Ph], max_out: usize) -> Vec<DiagSpec> {
    let mut out = vec![];
    for base in glike_family(n, false, phis) {
        for omask in 1u32..(1 << n) {
            if (omask.count_ones() as usize) > max_out {
                continue;
            }
            for hm in [0u32, omask] {
                let mut d = base.clone();
                for i in 0..n {
                    if (omask >> i) & 1 == 1 {
                        let b = d.add(0, (0, 1));
                        d.edges.push((i as u8, b, (hm >> i) & 1 == 1 && i % 2 == 0));
                        d.outputs.push(b);
                    }
                }
                out.push(d);
            }
        }
    }
    out
}

// ---------------------------------------------------------------------------------------------
// E3: random drivers under every announced draw
// ---------------------------------------------------------------------------------------------

pub fn judge_random(st: &mut Stats, spec: &DiagSpec, max_dev: usize, run_cap: usize) -> bool {
    st.inc("cases");
    let g: Graph = spec.build();
    let Some(want) = want_scalar(&g) else { return true };
    let mut all_complete = true;
    script::install_source();
    for driver in ["bss-random", "cats-random"] {
        for simp in [SimpFunc::NoSimp, SimpFunc::FullSimp] {
            let gg = g.clone();
            let mut outcomes = std::collections::BTreeSet::new();
            let (runs, complete) = script::explore(
                4000,
                max_dev,
                run_cap,
                || run_decomposer(&gg, driver, simp, true, false),
                |e| {
                    st.inc("evaluations");
                    st.inc("transitions");
                    let wit = || json!({"kind": "random", "spec": spec.to_json(), "driver": driver, "simp": format!("{:?}", simp), "script": e.script});
                    match e.end {
                        script::RunEnd::DrawLimit => {}
                        script::RunEnd::Panic(p) => st.violation(Violation { sig: format!("random-choice|panic|{}|{:?}", driver, simp), detail: p, witness: wit() }),
                        script::RunEnd::Done(s) => match scalar_exact(&s) {
                            Some(got) if got.eqv(&want) => {
                                outcomes.insert(format!("{:?}", e.trace));
                                if e.script.iter().any(|&c| c != 0) {
                                    st.inc("nontrivial");
                                }
                            }
                            _ => st.violation(Violation { sig: format!("random-choice|wrong-scalar|{}|{:?}", driver, simp), detail: format!("choice script {:?}: decomposer {:?}, diagram denotes {}", e.script, s, want.key()), witness: wit() }),
                        },
                    }
                },
            );
            st.add("choice_scripts", runs);
            st.add("distinct_choice_traces", outcomes.len() as u64);
            all_complete &= complete;
        }
    }
    script::remove_source();
    all_complete
}

// ---------------------------------------------------------------------------------------------
// E4: cooperative scheduler over the parallel-map seam
// ---------------------------------------------------------------------------------------------

#[derive(Clone, Copy, PartialEq, Debug)]
enum TS {
    Ready,
    Running,
    Blocked,
    Done,
}
struct Task {
    st: TS,
    parent: usize,
    pending: usize,
    group: i64,
    index: usize,
    child_group: i64,
}
struct Inner {
    tasks: Vec<Task>,
    current: usize,
    script: Vec<usize>,
    pos: usize,
    trace: Vec<(usize, usize)>,
    next_group: i64,
    error: Option<String>,
}
pub struct Sched {
    m: Mutex<Inner>,
    cv: Condvar,
    me: Mutex<Option<Arc<Sched>>>,
}
thread_local! { static ME: Cell<usize> = const { Cell::new(0) }; }

impl Sched {
    fn new(script: Vec<usize>) -> Arc<Sched> {
        let s = Arc::new(Sched {
            m: Mutex::new(Inner { tasks: vec![Task { st: TS::Running, parent: usize::MAX, pending: 0, group: -1, index: 0, child_group: -1 }], current: 0, script, pos: 0, trace: vec![], next_group: 0, error: None }),
            cv: Condvar::new(),
            me: Mutex::new(None),
        });
        *s.me.lock().unwrap() = Some(s.clone());
        s
    }
    /// choose the next logical task to run: canonical order makes answer 0 the sequential depth-first order
    fn pick(&self, g: &mut Inner) {
        let mut en: Vec<usize> = (0..g.tasks.len()).filter(|&i| g.tasks[i].st == TS::Ready).collect();
        if en.is_empty() {
            g.current = usize::MAX;
            self.cv.notify_all();
            return;
        }
        en.sort_by_key(|&i| {
            let t = &g.tasks[i];
            if t.child_group >= 0 {
                (-t.child_group, -1i64)
            } else {
                (-t.group, t.index as i64)
            }
        });
        let c = if g.pos < g.script.len() { g.script[g.pos] } else { 0 };
        g.pos += 1;
        if c >= en.len() {
            g.error = Some(format!("scripted schedule choice {} out of range {}", c, en.len()));
            g.current = en[0];
            g.tasks[en[0]].st = TS::Running;
            self.cv.notify_all();
            return;
        }
        g.trace.push((c, en.len()));
        let id = en[c];
        g.tasks[id].st = TS::Running;
        g.current = id;
        self.cv.notify_all();
    }
    fn wait_turn<'a>(&'a self, id: usize, mut g: std::sync::MutexGuard<'a, Inner>) -> std::sync::MutexGuard<'a, Inner> {
        while g.current != id {
            g = self.cv.wait(g).unwrap();
        }
        g
    }
}

impl ParExecutor for Sched {
    fn run(&self, n: usize, task: &(dyn Fn(usize) + Sync)) {
        let me = ME.with(|m| m.get());
        if n == 0 {
            return;
        }
        let ids: Vec<usize> = {
            let mut g = self.m.lock().unwrap();
            let grp = g.next_group;
            g.next_group += 1;
            let base = g.tasks.len();
            for i in 0..n {
                g.tasks.push(Task { st: TS::Ready, parent: me, pending: 0, group: grp, index: i, child_group: -1 });
            }
            g.tasks[me].st = TS::Blocked;
            g.tasks[me].pending = n;
            g.tasks[me].child_group = grp;
            (base..base + n).collect()
        };
        let arc = self.me.lock().unwrap().clone().unwrap();
        std::thread::scope(|s| {
            for (i, &id) in ids.iter().enumerate() {
                let arc = arc.clone();
                s.spawn(move || {
                    ME.with(|m| m.set(id));
                    install_executor(Some(arc.clone()));
                    {
                        let g = arc.m.lock().unwrap();
                        let _g = arc.wait_turn(id, g);
                    }
                    let r = std::panic::catch_unwind(std::panic::AssertUnwindSafe(|| task(i)));
                    let mut g = arc.m.lock().unwrap();
                    if r.is_err() {
                        g.error.get_or_insert_with(|| format!("task panicked: {}", crate::report::last_panic()));
                    }
                    g.tasks[id].st = TS::Done;
                    let p = g.tasks[id].parent;
                    g.tasks[p].pending -= 1;
                    if g.tasks[p].pending == 0 {
                        g.tasks[p].st = TS::Ready;
                    }
                    arc.pick(&mut g);
                    install_executor(None);
                });
            }
            let mut g = self.m.lock().unwrap();
            self.pick(&mut g);
            let mut g = self.wait_turn(me, g);
            g.tasks[me].child_group = -1;
            drop(g);
        });
    }
}

pub struct SchedRun {
    pub scalar: Result<Scalar4, String>,
    pub trace: Vec<(usize, usize)>,
    pub tasks: usize,
}

pub fn run_scheduled(g: &Graph, driver: &str, simp: SimpFunc, split: bool, script: Vec<usize>) -> SchedRun {
    let s = Sched::new(script);
    install_executor(Some(s.clone()));
    ME.with(|m| m.set(0));
    let r = guarded(|| run_decomposer(g, driver, simp, split, true));
    install_executor(None);
    let inner = s.m.lock().unwrap();
    let scalar = match (&inner.error, r) {
        (Some(e), _) => Err(e.clone()),
        (None, Err(p)) => Err(p),
        (None, Ok(x)) => Ok(x),
    };
    let out = SchedRun { scalar, trace: inner.trace.clone(), tasks: inner.tasks.len() };
    drop(inner);
    *s.me.lock().unwrap() = None;
    out
}

/// deviation-bounded DFS over task schedules
pub fn judge_schedules(st: &mut Stats, spec: &DiagSpec, driver: &'static str, simp: SimpFunc, split: bool, bound: usize, run_cap: usize) -> bool {
    st.inc("cases");
    let g: Graph = spec.build();
    let Some(want) = want_scalar(&g) else { return true };
    let mut stack: Vec<Vec<usize>> = vec![vec![]];
    let mut runs = 0usize;
    let mut outcomes = std::collections::BTreeSet::new();
    let mut complete = true;
    let mut max_tasks = 0;
    while let Some(pre) = stack.pop() {
        if runs >= run_cap {
            complete = false;
            break;
        }
        runs += 1;
        st.inc("evaluations");
        st.inc("transitions");
        let r = run_scheduled(&g, driver, simp, split, pre.clone());
        max_tasks = max_tasks.max(r.tasks);
        let wit = || json!({"kind": "schedule", "spec": spec.to_json(), "driver": driver, "simp": format!("{:?}", simp), "split": split, "schedule": pre});
        match &r.scalar {
            Err(e) if e.contains("out of range") => panic!("MACHINERY: {}", e),
            Err(e) => st.violation(Violation { sig: format!("schedule|panic|{}|{:?}", driver, simp), detail: e.clone(), witness: wit() }),
            Ok(s) => {
                outcomes.insert(format!("{:?}", s));
                match scalar_exact(s) {
                    Some(x) if x.eqv(&want) => {
                        if pre.iter().any(|&c| c != 0) {
                            st.inc("nontrivial");
                        }
                    }
                    _ => st.violation(Violation { sig: format!("schedule|wrong-scalar|{}|{:?}", driver, simp), detail: format!("schedule {:?} gave {:?}, the diagram denotes {}", pre, s, want.key()), witness: wit() }),
                }
            }
        }
        let dev = pre.iter().filter(|&&c| c != 0).count();
        if dev < bound {
            for i in (pre.len()..r.trace.len()).rev() {
                for alt in (1..r.trace[i].1).rev() {
                    let mut p: Vec<usize> = r.trace[..i].iter().map(|t| t.0).collect();
                    p.push(alt);
                    stack.push(p);
                }
            }
        }
    }
    st.add("schedules", runs as u64);
    st.add("distinct_schedule_outcomes", outcomes.len() as u64);
    st.add("max_logical_tasks", max_tasks as u64);
    if outcomes.len() > 1 {
        st.violation(Violation { sig: format!("schedule|outcome-depends-on-schedule|{}", driver), detail: format!("{} distinct scalars over {} schedules", outcomes.len(), runs), witness: json!({"kind": "schedule", "spec": spec.to_json(), "driver": driver, "simp": format!("{:?}", simp), "split": split, "schedule": []}) });
    }
    complete
}

/// real rayon pools with 1..16 threads (differential supplement, uncontrolled interleaving)
pub fn judge_pools(st: &mut Stats, spec: &DiagSpec) {
    st.inc("cases");
    let g: Graph = spec.build();
    let Some(want) = want_scalar(&g) else { return };
    for threads in 1..=16usize {
        let pool = rayon::ThreadPoolBuilder::new().num_threads(threads).build().unwrap();
        for driver in ["bss-first", "cats-first", "dynamic-t", "cutting"] {
            st.inc("evaluations");
            let gg = g.clone();
            // many-component diagrams: without simplification (full simplification would evaluate the small pieces itself)
            let simp = if spec.verts.len() >= 6 && spec.edges.len() * 2 == spec.verts.len() { SimpFunc::NoSimp } else { SimpFunc::FullSimp };
            let r = guarded(|| pool.install(|| run_decomposer(&gg, driver, simp, true, true)));
            let wit = || json!({"kind": "pool", "spec": spec.to_json(), "driver": driver, "threads": threads});
            match r {
                Err(p) => st.violation(Violation { sig: format!("pool|panic|{}", driver), detail: p, witness: wit() }),
                Ok(s) => match scalar_exact(&s) {
                    Some(x) if x.eqv(&want) => st.inc("nontrivial"),
                    _ => st.violation(Violation { sig: format!("pool|wrong-scalar|{}", driver), detail: format!("{} threads: {:?}, diagram denotes {}", threads, s, want.key()), witness: wit() }),
                },
            }
        }
    }
}

// ---------------------------------------------------------------------------------------------

fn t_star(nt: usize) -> DiagSpec {
    // nt T spiders, bipartite-ish Hadamard edges (the prototype's family)
    let mut d = DiagSpec::empty();
    for i in 0..nt {
        d.add(1, [(1, 4), (3, 4)][i % 2]);
        for j in 0..i {
            if (i + j) % 2 == 1 {
                d.edges.push((i as u8, j as u8, true));
            }
        }
    }
    d
}

pub fn run(rep: &mut Report) {
    rep.rule = "case = (closed graph-like diagram, driver, simplification level, split flag, mode) judged on Decomposer::scalar() == reference value exactly; per-step cases = (diagram, Decomp a driver can emit) judged on sum of term values; choice scripts (every announced RNG draw) and task schedules (every pick of the cooperative scheduler) are enumerated as environment answers; non-trivial = a diagram with T-count > 0 decomposed exactly / a non-default choice or schedule taken".into();
    rep.assume("the parallel map runs through the verif-hooks seam; E4 schedules whole logical tasks (fork, task start, task end, join): a data race inside one task segment is outside its reach (quizx has no shared mutable state there)");
    rep.assume("Sherlock's shuffles are unannounced draws answered from a fixed stream (every candidate it can emit is covered by the per-step family); DynamicTDriver breaks ties by std::HashMap order: every configuration is judged on exactness only");
    match script::calibrate() {
        Ok(n) => {
            rep.extra.insert("rng_calibration_points".into(), json!(n));
        }
        Err(e) => {
            rep.machinery_errors.push(e);
            return;
        }
    }
    let quick = rep.quick();
    // E1 configurations
    let mut fams: Vec<(String, Vec<DiagSpec>, bool)> = vec![];
    let t2: [Ph; 2] = [(1, 4), (3, 4)];
    if quick {
        let mut v = vec![];
        for n in 1..=3 {
            v.extend(glike_family(n, true, &PHI6));
        }
        fams.push(("G(<=3 labelled, Phi6)".into(), v, true));
        fams.push(("G(4 classes, Phi4)".into(), glike_family(4, false, &PHI4), true));
        fams.push(("G(5 classes, {1/4,3/4})".into(), glike_family(5, false, &t2), false));
        fams.push(("cat stars in hosts".into(), cat_family(true), true));
        fams.push(("6/7-T families".into(), many_t_family(), true));
        fams.push(("gadget groups".into(), gadget_group_family(), true));
        for (gn, sn) in [(3usize, 2usize)] {
            fams.push((format!("closed gadget webs W({},{})", gn, sn), (0..crate::checks::c04::gadget_web_count(gn, sn)).map(|i| crate::checks::c04::gadget_web_at_opt(gn, sn, i, true)).collect(), false));
        }
    } else {
        let mut v = vec![];
        for n in 1..=4 {
            v.extend(glike_family(n, true, &PHI6));
        }
        fams.push(("G(<=4 labelled, Phi6)".into(), v, true));
        fams.push(("G(5 classes, {0,1,1/4,3/4})".into(), glike_family(5, false, &[(0, 1), (1, 1), (1, 4), (3, 4)]), true));
        fams.push(("G(6 classes, {1/4,3/4})".into(), glike_family(6, false, &t2), false));
        fams.push(("cat stars in hosts".into(), cat_family(false), true));
        fams.push(("6/7-T families".into(), many_t_family(), true));
        fams.push(("gadget groups".into(), gadget_group_family(), true));
        for (gn, sn) in [(3usize, 2usize), (4, 1), (4, 2), (5, 1)] {
            fams.push((format!("closed gadget webs W({},{})", gn, sn), (0..crate::checks::c04::gadget_web_count(gn, sn)).map(|i| crate::checks::c04::gadget_web_at_opt(gn, sn, i, true)).collect(), false));
        }
    }
    for (name, fam, with_par) in &fams {
        let t0 = Instant::now();
        let stats = sweep(fam, |st, i, spec| {
            watch_begin(i as u64, 0);
            judge_configs(st, spec, None, *with_par);
            st.sample(1, || spec.to_json());
            watch_end();
        });
        rep.absorb(&format!("configs {}", name), &format!("{} diagrams x 8 drivers x 3 simplification levels x split off/on x {}", fam.len(), if *with_par { "sequential and parallel (real rayon)" } else { "sequential" }), true, None, t0, stats);
    }
    // basis-plugged circuits with a simplification level enabled (not graph-like before simplification)
    {
        let t0 = Instant::now();
        let (q, d) = if quick { (2usize, 2usize) } else { (2, 3) };
        let alpha = alpha_ct(q);
        let n = circuit_count(alpha.len(), d);
        let stats = crate::sweep_range(n, |st, idx| {
            let c = circuit_at(q, &alpha, d, idx);
            for out in 0..(1u32 << q) {
                st.inc("cases");
                let mut g: Graph = c.to_graph();
                g.plug_inputs(&vec![BasisElem::Z0; q]);
                let outs: Vec<BasisElem> = (0..q).map(|i| if (out >> i) & 1 == 1 { BasisElem::Z1 } else { BasisElem::X0 }).collect();
                g.plug_outputs(&outs);
                let Some(want) = want_scalar(&g) else { continue };
                script::install_source();
                for driver in DRIVERS {
                    for simp in [SimpFunc::CliffordSimp, SimpFunc::FullSimp] {
                        st.inc("evaluations");
                        script::begin(&[], usize::MAX);
                        let r = guarded(|| run_decomposer(&g, driver, simp, true, false));
                        let wit = || json!({"kind": "circuit", "circuit": circuit_json(&c), "outputs": out, "driver": driver, "simp": format!("{:?}", simp)});
                        match r.map(|s| scalar_exact(&s)) {
                            Ok(Some(x)) if x.eqv(&want) => {
                                if g.tcount() > 0 {
                                    st.inc("nontrivial")
                                }
                            }
                            Ok(x) => st.violation(Violation { sig: format!("plugged-circuit|wrong-scalar|{}|{:?}", driver, simp), detail: format!("{:?} vs {}", x.map(|z| z.key()), want.key()), witness: wit() }),
                            Err(p) => st.violation(Violation { sig: format!("plugged-circuit|panic|{}|{:?}|{}", driver, simp, p.rsplit(" @ ").next().unwrap_or("")), detail: p, witness: wit() }),
                        }
                    }
                }
                script::remove_source();
            }
        });
        rep.absorb(&format!("plugged circuits K({},{},A_ct)", q, d), "every circuit with |0..0> plugged in and every Z1/X0 output pattern plugged, 8 drivers x {Clifford, full} simplification", true, None, t0, stats);
    }
    // operation histories on one decomposer (staged runs, re-use)
    {
        let t0 = Instant::now();
        let mut fam: Vec<DiagSpec> = vec![];
        for n in 1..=3 {
            fam.extend(glike_family(n, true, &PHI4));
        }
        fam.extend(glike_family(4, false, &t2));
        fam.extend(many_t_family());
        fam.extend(gadget_group_family());
        if !quick {
            fam.extend(glike_family(5, false, &t2));
            fam.extend(cat_family(true));
        }
        let stats = sweep(&fam, |st, i, spec| {
            watch_begin(i as u64, 5);
            judge_histories(st, spec, None);
            watch_end();
        });
        rep.absorb("operation histories", &format!("{} closed diagrams x 8 drivers x 3 simplification levels x split off/on x 9 plans over {{decompose_until_depth(k), decompose, decompose_parallel, decompose_standard, set_target}} (staged runs: U0/U1/U2 then D or P, two stages, re-use after a finished or a partial run)", fam.len()), true, None, t0, stats);
    }
    // per-step clause
    {
        let t0 = Instant::now();
        let mut fam: Vec<DiagSpec> = vec![];
        for (name, f, _) in &fams {
            // quick: the gadget webs are left to the configuration sweep (they add 6000 diagrams to the per-step family)
            if quick && name.starts_with("closed gadget webs") {
                continue;
            }
            fam.extend(f.iter().cloned());
        }
        let stats = sweep(&fam, |st, i, spec| {
            watch_begin(i as u64, 1);
            judge_steps(st, spec, None);
            watch_end();
        });
        rep.absorb("per-step", "on every diagram above: every Decomp a driver can emit (deterministic choices, every ordered selection of random_ts via the scripted RNG, its magic-5 prefixes, every single cut, every admissible cat in every leg rotation, dynamic-T's pair cuts, spider cutting): sum of term values = value", true, None, t0, stats);
    }
    // saved terms
    {
        let t0 = Instant::now();
        let fam = if quick { open_family(3, &PHI4, 2) } else { let mut f = open_family(3, &PHI6, 3); f.extend(open_family(4, &[(1, 4), (3, 4), (1, 2)], 2)); f };
        // cat stars, T-rich and gadget diagrams with one or two outputs on their first spiders
        let mut fam = fam;
        let mut closed: Vec<DiagSpec> = cat_family(true);
        closed.extend(many_t_family());
        closed.extend(gadget_group_family());
        for (k, base) in closed.into_iter().enumerate() {
            if quick && k % 3 != 0 {
                continue;
            }
            for outs in [vec![0usize], vec![1], vec![1, 2], vec![0, 3]] {
                if outs.iter().any(|&o| o >= base.verts.len()) {
                    continue;
                }
                let mut d = base.clone();
                for (j, &o) in outs.iter().enumerate() {
                    let b = d.add(0, (0, 1));
                    d.edges.push((o as u8, b, j == 1));
                    d.outputs.push(b);
                }
                fam.push(d);
            }
        }
        let stats = sweep(&fam, |st, i, spec| {
            watch_begin(i as u64, 2);
            judge_saved(st, spec);
            watch_end();
        });
        rep.absorb("saved terms", &format!("{} graph-like diagrams with 1..3 outputs (plain and Hadamard), BSS-only and BSS+cats with saving, 3 simplification levels: every saved term Clifford and the terms' maps sum to the original", fam.len()), true, None, t0, stats);
    }
    // E3 random drivers
    {
        let t0 = Instant::now();
        let mut fam: Vec<DiagSpec> = vec![];
        if quick {
            fam.extend(glike_family(3, false, &t2));
            fam.extend(glike_family(4, false, &t2).into_iter().step_by(5));
            fam.push(t_star(6));
        } else {
            fam.extend(glike_family(3, false, &t2));
            fam.extend(glike_family(4, false, &t2));
            fam.extend(glike_family(5, false, &[(1, 4)]));
            fam.push(t_star(6));
            fam.push(t_star(7));
        }
        let incomplete = std::sync::atomic::AtomicU64::new(0);
        let stats = sweep(&fam, |st, i, spec| {
            watch_begin(i as u64, 3);
            let nt = spec.verts.len();
            let c = judge_random(st, spec, if nt <= 4 { usize::MAX } else { 2 }, if quick { 3000 } else { 40_000 });
            if !c {
                incomplete.fetch_add(1, std::sync::atomic::Ordering::Relaxed);
            }
            watch_end();
        });
        let inc = incomplete.load(std::sync::atomic::Ordering::Relaxed);
        rep.absorb("random drivers (E3)", "BSS-only / BSS+cats with random T choice, no / full simplification: every announced draw enumerated (unbounded on <= 4 T spiders, <= 2 deviations beyond)", inc == 0, if inc > 0 { Some(format!("{} inputs hit the run cap", inc)) } else { None }, t0, stats);
    }
    // E4 schedules (sequential over inputs: each exploration owns its threads)
    {
        let t0 = Instant::now();
        let mut st = Stats::default();
        let mut jobs: Vec<(DiagSpec, &'static str, SimpFunc, bool, usize, usize)> = vec![];
        if quick {
            jobs.push((t_star(6), "bss-first", SimpFunc::FullSimp, false, usize::MAX, 6000));
            jobs.push((t_star(8), "bss-first", SimpFunc::FullSimp, true, 2, 1500));
            jobs.push((cat_family(true)[40].clone(), "cats-first", SimpFunc::NoSimp, true, 2, 1500));
        } else {
            jobs.push((t_star(6), "bss-first", SimpFunc::FullSimp, false, usize::MAX, 6000));
            jobs.push((t_star(6), "bss-first", SimpFunc::NoSimp, true, 2, 20_000));
            jobs.push((t_star(10), "bss-first", SimpFunc::FullSimp, true, 2, 3000));
            jobs.push((t_star(12), "bss-first", SimpFunc::FullSimp, true, 2, 25_000));
            jobs.push((t_star(8), "cats-first", SimpFunc::CliffordSimp, true, 3, 30_000));
            jobs.push((t_star(7), "dynamic-t", SimpFunc::FullSimp, true, 2, 10_000));
            jobs.push((t_star(5), "cutting", SimpFunc::NoSimp, true, 2, 10_000));
            for i in [10usize, 40, 100] {
                jobs.push((cat_family(true)[i].clone(), "cats-first", SimpFunc::NoSimp, true, 2, 5000));
            }
        }
        // a term with a component that is exactly zero inside a non-zero total (cutting the T centre leaves an isolated
        // Z(pi) = 0 in one term): early-exit shortcuts and anything shared between sibling tasks show up here
        {
            let mut d = DiagSpec::empty();
            let c = d.add(1, (1, 4));
            let l1 = d.add(1, (1, 1));
            let l2 = d.add(1, (1, 4));
            let l3 = d.add(1, (3, 4));
            d.edges.push((c, l1, true));
            d.edges.push((c, l2, true));
            d.edges.push((l2, l3, true));
            jobs.push((d.clone(), "cutting", SimpFunc::NoSimp, true, 2, if quick { 1500 } else { 20_000 }));
            if !quick {
                jobs.push((d, "bss-first", SimpFunc::NoSimp, true, 3, 20_000));
            }
        }
        let mut capped = 0;
        // explorations are independent: run them on separate harness threads
        use rayon::prelude::*;
        let results: Vec<(Stats, bool)> = jobs
            .par_iter()
            .map(|(spec, driver, simp, split, bound, cap)| {
                let mut s = Stats::default();
                let c = judge_schedules(&mut s, spec, driver, *simp, *split, *bound, *cap);
                (s, c)
            })
            .collect();
        for (s, c) in results {
            if !c {
                capped += 1;
            }
            st = st.merge(s);
        }
        rep.absorb("schedules (E4)", "decompose_parallel through the seam under a cooperative scheduler: every schedule of whole logical tasks with a bounded number of deviations from the sequential depth-first order (all 5040 schedules of a 7-term BSS step unbounded)", capped == 0, if capped > 0 { Some(format!("{} explorations hit their run cap (bound reported per job in the counters)", capped)) } else { None }, t0, st);
    }
    // real pools
    {
        let t0 = Instant::now();
        let mut st = Stats::default();
        let mut specs = vec![t_star(6), t_star(8), many_t_family()[5].clone()];
        // many connected components (k disjoint T-T pairs with different phases): the split point fans out into k
        // tasks; k on both sides of twice the pool size for every pool size 1..16 (k = 3..9, 33, 35)
        for k in [3usize, 4, 5, 6, 7, 9, 33, 35] {
            let mut d = DiagSpec::empty();
            for i in 0..k {
                let a = d.add(1, [(1, 4), (3, 4), (-1, 4)][i % 3]);
                let b = d.add(1, [(1, 4), (-3, 4)][i % 2]);
                d.edges.push((a, b, true));
            }
            specs.push(d);
        }
        for spec in specs {
            judge_pools(&mut st, &spec);
        }
        rep.absorb("real rayon pools 1..16", "decompose_parallel on real rayon pools with every thread count 1..16 (uncontrolled interleaving: differential supplement, not the deciding step)", true, None, t0, st);
    }
}

pub fn replay(w: &Value) -> Option<Violation> {
    let mut st = Stats::default();
    let spec = DiagSpec::from_json(&w["spec"]);
    match w["kind"].as_str()? {
        "config" => judge_configs(&mut st, &spec?, Some(&w["config"]), true),
        "step" => judge_steps(&mut st, &spec?, w["decomp"].as_str()),
        "saved" => judge_saved(&mut st, &spec?),
        "history" => judge_histories(&mut st, &spec?, Some(&w["config"])),
        "random" => {
            judge_random(&mut st, &spec?, usize::MAX, 50_000);
        }
        "schedule" => {
            let g: Graph = spec?.build();
            let want = want_scalar(&g)?;
            let sched: Vec<usize> = w["schedule"].as_array()?.iter().map(|x| x.as_u64().unwrap() as usize).collect();
            let simp = match w["simp"].as_str()? {
                "FullSimp" => SimpFunc::FullSimp,
                "CliffordSimp" => SimpFunc::CliffordSimp,
                _ => SimpFunc::NoSimp,
            };
            let drv: &str = DRIVERS.iter().find(|d| **d == w["driver"].as_str().unwrap_or(""))?;
            let r = run_scheduled(&g, drv, simp, w["split"].as_bool()?, sched);
            println!("schedule trace {:?}, {} logical tasks, result {:?}, expected {}", r.trace, r.tasks, r.scalar, want.key());
            if let Ok(s) = &r.scalar {
                if scalar_exact(s).map(|x| x.eqv(&want)) == Some(true) {
                    return None;
                }
            }
            return Some(Violation { sig: "schedule|wrong-scalar".into(), detail: format!("{:?}", r.scalar), witness: w.clone() });
        }
        "pool" => judge_pools(&mut st, &spec?),
        _ => return None,
    }
    st.viols.into_values().next().map(|(_, v)| v)
}
