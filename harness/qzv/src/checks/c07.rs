//! C07 — graph scalars: exact ring arithmetic, honest approx flag, faithful conversions, ordering.
//!
//! Part A (E1): all ordered pairs of a Dyadic alphabet with boundary mantissas / exponents: + - x cmp abs_diff_eq,
//!   f64 conversion, against a BigRational model.
//! Part B (E2): expression histories over Scalar4 — BFS closure from a seed set under the public operations,
//!   de-duplicated on raw parts, against the exact Z[omega][1/sqrt2] model.

use crate::conv::*;
use crate::report::*;
use crate::sweep;
use approx::AbsDiffEq;
use num::bigint::BigInt;
use num::rational::BigRational;
use num::{One, Rational64, Signed, ToPrimitive, Zero};
use quizx::phase::Phase;
use quizx::scalar::*;
use qzv_ref::ring::*;
use serde_json::{json, Value};
use std::collections::BTreeSet;
use std::time::Instant;

// ---------------------------------------------------------------------------------------------
// Part A: Dyadic
// ---------------------------------------------------------------------------------------------

/// how a Dyadic value is built through the public API (replayable)
#[derive(Clone, Debug)]
pub enum DSpec {
    New(i64, i32),
    F64(f64),
    /// product of two specs (to create full 64-bit mantissas)
    Mul(Box<DSpec>, Box<DSpec>),
    Neg(Box<DSpec>),
}

impl DSpec {
    pub fn build(&self) -> Dyadic {
        match self {
            DSpec::New(v, e) => Dyadic::new(*v, *e),
            DSpec::F64(f) => Dyadic::from(*f),
            DSpec::Mul(a, b) => a.build() * b.build(),
            DSpec::Neg(a) => -a.build(),
        }
    }
    pub fn to_json(&self) -> Value {
        match self {
            DSpec::New(v, e) => json!(["new", v, e]),
            DSpec::F64(f) => json!(["f64", f.to_bits()]),
            DSpec::Mul(a, b) => json!(["mul", a.to_json(), b.to_json()]),
            DSpec::Neg(a) => json!(["neg", a.to_json()]),
        }
    }
    pub fn from_json(v: &Value) -> Option<DSpec> {
        Some(match v[0].as_str()? {
            "new" => DSpec::New(v[1].as_i64()?, v[2].as_i64()? as i32),
            "f64" => DSpec::F64(f64::from_bits(v[1].as_u64()?)),
            "mul" => DSpec::Mul(Box::new(DSpec::from_json(&v[1])?), Box::new(DSpec::from_json(&v[2])?)),
            _ => DSpec::Neg(Box::new(DSpec::from_json(&v[1])?)),
        })
    }
}

fn pow2(e: i64) -> BigRational {
    if e >= 0 {
        BigRational::from_integer(BigInt::one() << (e as usize))
    } else {
        BigRational::new(BigInt::one(), BigInt::one() << ((-e) as usize))
    }
}

/// represented value of a Dyadic from its raw parts
fn drep(d: &Dyadic) -> BigRational {
    let (flags, exp, val) = d.raw_parts();
    let m = BigRational::from_integer(BigInt::from(val));
    let v = m * pow2(exp as i64);
    if flags & 1 == 1 {
        -v
    } else {
        v
    }
}
fn dapprox(d: &Dyadic) -> bool {
    d.raw_parts().0 & 2 != 0
}
/// representation invariant: zero is (0,0,no sign); otherwise the mantissa has bit 63 set
fn dnormal(d: &Dyadic) -> bool {
    let (flags, exp, val) = d.raw_parts();
    if val == 0 {
        exp == 0 && flags & 1 == 0
    } else {
        val >> 63 == 1
    }
}

fn rel_close(got: &BigRational, want: &BigRational, scale: &BigRational, bits: usize) -> bool {
    let err = (got - want).abs();
    err * BigRational::from_integer(BigInt::one() << bits) <= scale.abs()
}

pub fn dyadic_alphabet(quick: bool) -> Vec<DSpec> {
    let mut out = vec![DSpec::New(0, 0)];
    let mants: Vec<i64> = vec![1, 3, 5, (1 << 31) + 1, (1 << 32) - 1, (1 << 32) + 1, (1i64 << 53) - 1, (1i64 << 62) + 1, i64::MAX];
    let exps: Vec<i32> = if quick { vec![-1100, -1022, -64, -63, -1, 0, 1, 63, 64, 1000] } else { vec![-1100, -1023, -1022, -1021, -130, -65, -64, -63, -62, -1, 0, 1, 2, 62, 63, 64, 65, 128, 960, 1000, 1023, 1024] };
    for &m in &mants {
        for &e in &exps {
            out.push(DSpec::New(m, e));
            out.push(DSpec::New(-m, e));
        }
    }
    // full 64-bit odd and all-ones mantissas through products
    let big = [
        DSpec::Mul(Box::new(DSpec::New((1 << 32) - 1, 0)), Box::new(DSpec::New((1 << 32) + 1, 0))), // 2^64 - 1
        DSpec::Mul(Box::new(DSpec::New((1i64 << 62) + 1, 0)), Box::new(DSpec::New(3, 0))),         // 3*2^62+3: 64 bits
        DSpec::Mul(Box::new(DSpec::New(i64::MAX, 0)), Box::new(DSpec::New(2, 0))),                 // 2^64 - 2
        DSpec::Mul(Box::new(DSpec::New((1 << 32) + 1, 0)), Box::new(DSpec::New((1 << 32) + 1, 0))), // needs 65 bits: approx
        DSpec::Mul(Box::new(DSpec::New(i64::MAX, 0)), Box::new(DSpec::New(i64::MAX, 0))),          // 126 bits: approx
    ];
    for b in big {
        out.push(DSpec::Neg(Box::new(b.clone())));
        for e in [-64, 0, 5] {
            out.push(DSpec::Mul(Box::new(b.clone()), Box::new(DSpec::New(1, e))));
        }
    }
    for f in [1.0f64, -1.0, 0.5, 0.1, 0.005, 0.7, -55.13, 1e-300, 5e-324, 2.2250738585072014e-308, 1.7976931348623157e308, 13e-60, 3.0, 0.0, -0.0, std::f64::consts::PI] {
        out.push(DSpec::F64(f));
    }
    out
}

fn dcls(d: &Dyadic) -> &'static str {
    let (_, _, val) = d.raw_parts();
    if val == 0 {
        "zero"
    } else if val.trailing_zeros() == 0 {
        "full64"
    } else if dapprox(d) {
        "approx"
    } else {
        "plain"
    }
}

pub fn dyadic_unary(st: &mut Stats, s: &DSpec) {
    st.inc("cases");
    st.inc("evaluations");
    let w = || json!({"kind": "dyadic1", "a": s.to_json()});
    let d = match guarded(|| s.build()) {
        Err(p) => {
            st.violation(Violation { sig: "dyadic|build-panic".into(), detail: p, witness: w() });
            return;
        }
        Ok(d) => d,
    };
    if !dnormal(&d) && !dapprox(&d) {
        st.violation(Violation { sig: "dyadic|exact-not-normalised".into(), detail: format!("{:?}", d.raw_parts()), witness: w() });
        return;
    }
    let rep = drep(&d);
    // construction: exact constructors give the exact value and no flag
    if let DSpec::New(v, e) = s {
        let want = BigRational::from_integer(BigInt::from(*v)) * pow2(*e as i64);
        if rep != want || dapprox(&d) {
            st.violation(Violation { sig: "dyadic|new-wrong".into(), detail: format!("Dyadic::new({}, {}) represents {} approx={}", v, e, rep, dapprox(&d)), witness: w() });
        }
    }
    if let DSpec::F64(f) = s {
        let want = BigRational::from_float(*f).unwrap();
        if rep != want {
            st.violation(Violation { sig: "dyadic|from-f64-wrong".into(), detail: format!("Dyadic::from({:e}) represents {}", f, rep), witness: w() });
        }
    }
    // conversion to f64: defined (must be Ok and accurate) whenever the magnitude is a normal f64
    let lo = pow2(-1022);
    let hi = pow2(1023);
    let mag = rep.abs();
    let r = guarded(|| f64::try_from(d));
    match r {
        Err(p) => st.violation(Violation { sig: format!("dyadic|to-f64-panic|{}", dcls(&d)), detail: p, witness: w() }),
        Ok(res) => {
            if rep.is_zero() {
                if res != Ok(0.0) {
                    st.violation(Violation { sig: "dyadic|to-f64-zero".into(), detail: format!("{:?}", res), witness: w() });
                }
            } else if mag >= lo && mag <= hi {
                match res {
                    Err(_) => st.violation(Violation { sig: format!("dyadic|to-f64-refused-in-range|{}", dcls(&d)), detail: format!("value {:e} is a normal f64 but conversion returned Err", rep.to_f64().unwrap_or(0.0)), witness: w() }),
                    Ok(x) => {
                        let xr = BigRational::from_float(x);
                        let ok = match xr {
                            None => false,
                            Some(xr) => rel_close(&xr, &rep, &rep, 40),
                        };
                        if !ok {
                            st.violation(Violation { sig: format!("dyadic|to-f64-inaccurate|{}", dcls(&d)), detail: format!("represented {:e}, converted to {:e}", rep.to_f64().unwrap_or(f64::NAN), x), witness: w() });
                        } else {
                            st.inc("nontrivial");
                        }
                    }
                }
            } else {
                st.inc("to_f64_out_of_f64_range");
            }
        }
    }
    // f64 -> Dyadic -> f64
    if let DSpec::F64(f) = s {
        if f.is_normal() || *f == 0.0 {
            let back = guarded(|| f64::try_from(Dyadic::from(*f)));
            if back != Ok(Ok(*f)) {
                st.violation(Violation { sig: "dyadic|f64-roundtrip".into(), detail: format!("{:e} came back as {:?}", f, back), witness: w() });
            }
        }
    }
}

pub fn dyadic_pair(st: &mut Stats, sa: &DSpec, sb: &DSpec) {
    st.inc("cases");
    let (Ok(a), Ok(b)) = (guarded(|| sa.build()), guarded(|| sb.build())) else { return };
    let (ra, rb) = (drep(&a), drep(&b));
    let w = |op: &str| json!({"kind": "dyadic2", "op": op, "a": sa.to_json(), "b": sb.to_json()});
    let cls = format!("{},{}", dcls(&a), dcls(&b));
    // arithmetic
    for (op, want, scale) in [
        ("add", &ra + &rb, ra.abs().max(rb.abs())),
        ("sub", &ra - &rb, ra.abs().max(rb.abs())),
        ("mul", &ra * &rb, (&ra * &rb).abs()),
    ] {
        st.inc("evaluations");
        let r = guarded(|| match op {
            "add" => a + b,
            "sub" => a - b,
            _ => a * b,
        });
        match r {
            Err(p) => st.violation(Violation { sig: format!("dyadic|{}|panic|{}", op, cls), detail: p, witness: w(op) }),
            Ok(c) => {
                let rc = drep(&c);
                if !dapprox(&c) {
                    // not flagged: exactly the value of the operation on the stored operands, in normal form
                    // (equality and the zero / one tests rely on the canonical representation)
                    if rc != want {
                        st.violation(Violation { sig: format!("dyadic|{}|unflagged-inexact|{}", op, cls), detail: format!("result not flagged approximate but represents {} instead of {}", rc, want), witness: w(op) });
                    } else if !dnormal(&c) {
                        st.violation(Violation { sig: format!("dyadic|{}|exact-not-normalised|{}", op, cls), detail: format!("{:?}", c.raw_parts()), witness: w(op) });
                    } else {
                        st.inc("nontrivial");
                    }
                } else if !rel_close(&rc, &want, &scale, 40) {
                    st.violation(Violation { sig: format!("dyadic|{}|approx-far-off|{}", op, cls), detail: format!("flagged approximate, represents {:e}, operands give {:e}", rc.to_f64().unwrap_or(f64::NAN), want.to_f64().unwrap_or(f64::NAN)), witness: w(op) });
                }
                // a result must still be ordered like a real number against its operands and zero (second-step history)
                for (name, other, ro) in [("a", a, &ra), ("b", b, &rb), ("0", Dyadic::new(0, 0), &BigRational::zero())] {
                    st.inc("evaluations");
                    if let Ok(o) = guarded(|| c.cmp(&other)) {
                        if o != rc.cmp(ro) {
                            st.violation(Violation { sig: format!("dyadic|cmp-after-{}|wrong|{}", op, cls), detail: format!("result {:?} (= {:e}) cmp operand {} (= {:e}) gave {:?}", c.raw_parts(), rc.to_f64().unwrap_or(f64::NAN), name, ro.to_f64().unwrap_or(f64::NAN), o), witness: w(op) });
                        }
                    }
                }
            }
        }
    }
    // order of the reals
    st.inc("evaluations");
    match guarded(|| a.cmp(&b)) {
        Err(p) => st.violation(Violation { sig: format!("dyadic|cmp|panic|{}", cls), detail: p, witness: w("cmp") }),
        Ok(o) => {
            if o != ra.cmp(&rb) {
                st.violation(Violation { sig: format!("dyadic|cmp|wrong|{}", cls), detail: format!("{:e} cmp {:e} = {:?}", ra.to_f64().unwrap_or(f64::NAN), rb.to_f64().unwrap_or(f64::NAN), o), witness: w("cmp") });
            }
        }
    }
    // approximate equality with the default epsilon 2^-100 (judged away from the threshold)
    st.inc("evaluations");
    let eps = pow2(-100);
    let diff = (&ra - &rb).abs();
    let margin = ra.abs().max(rb.abs()) * pow2(-50);
    if (&diff - &eps).abs() > margin {
        match guarded(|| a.abs_diff_eq(&b, Dyadic::default_epsilon())) {
            Err(p) => st.violation(Violation { sig: format!("dyadic|abs_diff_eq|panic|{}", cls), detail: p, witness: w("abs_diff_eq") }),
            Ok(got) => {
                if got != (diff < eps) {
                    st.violation(Violation { sig: format!("dyadic|abs_diff_eq|wrong|got={}|{}", got, if diff.is_zero() { "equal-values" } else { "distinct" }), detail: format!("|a-b| = {:e}", diff.to_f64().unwrap_or(f64::NAN)), witness: w("abs_diff_eq") });
                }
            }
        }
    }
}

// ---------------------------------------------------------------------------------------------
// Part B: Scalar4 expression histories
// ---------------------------------------------------------------------------------------------

#[derive(Clone, Debug, PartialEq)]
pub enum SOp {
    // seeds
    New([i64; 4], i32),
    Real(f64),
    Complex(f64, f64),
    FromPhase(i64, i64),
    Sqrt2Pow(i32),
    OnePlusPhase(i64, i64),
    // unary
    Conj,
    MulSqrt2(i32),
    MulPhase(i64, i64),
    MulOnePlusPhase(i64, i64),
    // binary with a seed (index into the seed list); `true` = seed on the left
    Add(usize, bool),
    Sub(usize, bool),
    Mul(usize, bool),
}

impl SOp {
    fn to_json(&self) -> Value {
        match self {
            SOp::New(c, p) => json!(["new", c, p]),
            SOp::Real(f) => json!(["real", f.to_bits()]),
            SOp::Complex(a, b) => json!(["complex", a.to_bits(), b.to_bits()]),
            SOp::FromPhase(n, d) => json!(["from_phase", n, d]),
            SOp::Sqrt2Pow(p) => json!(["sqrt2_pow", p]),
            SOp::OnePlusPhase(n, d) => json!(["one_plus_phase", n, d]),
            SOp::Conj => json!(["conj"]),
            SOp::MulSqrt2(p) => json!(["mul_sqrt2_pow", p]),
            SOp::MulPhase(n, d) => json!(["mul_phase", n, d]),
            SOp::MulOnePlusPhase(n, d) => json!(["mul_one_plus_phase", n, d]),
            SOp::Add(i, l) => json!(["add", i, l]),
            SOp::Sub(i, l) => json!(["sub", i, l]),
            SOp::Mul(i, l) => json!(["mul", i, l]),
        }
    }
    fn from_json(v: &Value) -> Option<SOp> {
        let i = |k: usize| v[k].as_i64();
        Some(match v[0].as_str()? {
            "new" => SOp::New([v[1][0].as_i64()?, v[1][1].as_i64()?, v[1][2].as_i64()?, v[1][3].as_i64()?], i(2)? as i32),
            "real" => SOp::Real(f64::from_bits(v[1].as_u64()?)),
            "complex" => SOp::Complex(f64::from_bits(v[1].as_u64()?), f64::from_bits(v[2].as_u64()?)),
            "from_phase" => SOp::FromPhase(i(1)?, i(2)?),
            "sqrt2_pow" => SOp::Sqrt2Pow(i(1)? as i32),
            "one_plus_phase" => SOp::OnePlusPhase(i(1)?, i(2)?),
            "conj" => SOp::Conj,
            "mul_sqrt2_pow" => SOp::MulSqrt2(i(1)? as i32),
            "mul_phase" => SOp::MulPhase(i(1)?, i(2)?),
            "mul_one_plus_phase" => SOp::MulOnePlusPhase(i(1)?, i(2)?),
            "add" => SOp::Add(i(1)? as usize, v[2].as_bool()?),
            "sub" => SOp::Sub(i(1)? as usize, v[2].as_bool()?),
            _ => SOp::Mul(i(1)? as usize, v[2].as_bool()?),
        })
    }
}

/// model value: the exact value of the expression over the constants *as stored* (a float constant is an exact
/// dyadic number), a bound on the rounding error the implementation may have accumulated, and whether an
/// irrational constant (a phase outside k*pi/4) entered
#[derive(Clone, Debug)]
pub struct Model {
    pub exact: Zw,
    /// sum of coefficient magnitudes (for error propagation)
    pub mag: f64,
    /// bound on |represented - exact| if every step rounds to 2^-60 relative
    pub err: f64,
}

const ULP: f64 = 8.7e-19; // 2^-60

fn ph(n: i64, d: i64) -> Phase {
    Phase::new(Rational64::new(n, d))
}
fn mag_of(x: &Zw) -> f64 {
    let c = x.to_c64();
    c.re.abs() + c.im.abs() + 1e-300
}
fn exact_model(x: Zw) -> Model {
    let mag = mag_of(&x);
    Model { exact: x, mag, err: 0.0 }
}
/// the stored value of Scalar4::from_phase for any rational phase, read back from the constructor itself for
/// irrational ones (their stored value is whatever cos/sin rounding produced; the constructor must flag them)
fn model_phase(n: i64, d: i64) -> Model {
    match Zw::phase(n, d) {
        Some(x) => exact_model(x),
        None => exact_model(scalar_represented(&Scalar4::from_phase(ph(n, d)))),
    }
}
fn m_mul(a: &Model, b: &Model) -> Model {
    let exact = a.exact.mul(&b.exact);
    let mag = mag_of(&exact).max(a.mag * b.mag * 1e-3);
    Model { exact, mag, err: a.mag * b.err + b.mag * a.err + a.err * b.err + 16.0 * ULP * a.mag * b.mag }
}
fn m_add(a: &Model, b: &Model, neg: bool) -> Model {
    let exact = if neg { a.exact.sub(&b.exact) } else { a.exact.add(&b.exact) };
    let mag = mag_of(&exact);
    Model { exact, mag, err: a.err + b.err + 4.0 * ULP * (a.mag + b.mag) }
}
fn m_one() -> Model {
    exact_model(Zw::one())
}
fn dy(f: f64) -> Zw {
    // exact value of a float as an element of the ring
    let r = BigRational::from_float(f).unwrap();
    let k = r.denom().bits() as i32 - 1; // denominator is 2^k
    Zw { c: [r.numer().clone(), BigInt::zero(), BigInt::zero(), BigInt::zero()], k: -2 * k }
}

pub fn seed_value(op: &SOp) -> (Scalar4, Model) {
    match op {
        SOp::New(c, p) => (Scalar4::new(*c, *p), exact_model(Zw::new(*c, 2 * *p))),
        SOp::Real(f) => (Scalar4::real(*f), exact_model(dy(*f))),
        SOp::Complex(a, b) => (Scalar4::complex(*a, *b), exact_model(dy(*a).add(&dy(*b).mul(&Zw::omega_pow(2))))),
        SOp::FromPhase(n, d) => (Scalar4::from_phase(ph(*n, *d)), model_phase(*n, *d)),
        SOp::Sqrt2Pow(p) => (Scalar4::sqrt2_pow(*p), exact_model(Zw::sqrt2_pow(*p))),
        SOp::OnePlusPhase(n, d) => (Scalar4::one_plus_phase(ph(*n, *d)), m_add(&m_one(), &model_phase(*n, *d), false)),
        _ => unreachable!(),
    }
}

pub fn apply(op: &SOp, s: &Scalar4, m: &Model, seeds: &[(SOp, Scalar4, Model)]) -> (Scalar4, Model) {
    match op {
        SOp::Conj => (s.conj(), Model { exact: m.exact.conj(), mag: m.mag, err: m.err }),
        SOp::MulSqrt2(p) => {
            let mut t = *s;
            t.mul_sqrt2_pow(*p);
            (t, m_mul(m, &exact_model(Zw::sqrt2_pow(*p))))
        }
        SOp::MulPhase(n, d) => {
            let mut t = *s;
            t.mul_phase(ph(*n, *d));
            (t, m_mul(m, &model_phase(*n, *d)))
        }
        SOp::MulOnePlusPhase(n, d) => {
            let mut t = *s;
            t.mul_one_plus_phase(ph(*n, *d));
            (t, m_mul(m, &m_add(&m_one(), &model_phase(*n, *d), false)))
        }
        SOp::Add(i, left) => {
            let (_, x, mx) = &seeds[*i];
            if *left { (*x + *s, m_add(mx, m, false)) } else { (*s + *x, m_add(m, mx, false)) }
        }
        SOp::Sub(i, left) => {
            let (_, x, mx) = &seeds[*i];
            if *left { (*x - *s, m_add(mx, m, true)) } else { (*s - *x, m_add(m, mx, true)) }
        }
        SOp::Mul(i, left) => {
            let (_, x, mx) = &seeds[*i];
            if *left { (*x * *s, m_mul(mx, m)) } else { (*s * *x, m_mul(m, mx)) }
        }
        _ => seed_value(op),
    }
}

pub fn scalar_seeds(quick: bool) -> Vec<SOp> {
    let mut v = vec![
        SOp::New([0, 0, 0, 0], 0),
        SOp::New([1, 0, 0, 0], 0),
        SOp::New([-1, 0, 0, 0], 0),
        SOp::New([0, 0, 1, 0], 0),
        SOp::New([3, -1, 4, 1], -2),
        SOp::New([(1 << 32) - 1, 0, 0, 0], 0),
        SOp::New([(1 << 32) + 1, 0, 0, 0], 0),
        SOp::New([0, (1i64 << 62) + 1, 0, -3], 5),
        SOp::New([i64::MAX, 0, 0, 1], -64),
        SOp::FromPhase(1, 4),
        SOp::FromPhase(-3, 4),
        SOp::FromPhase(1, 2),
        SOp::Sqrt2Pow(1),
        SOp::Sqrt2Pow(-1),
        SOp::Sqrt2Pow(-2),
        SOp::Sqrt2Pow(63),
        SOp::Sqrt2Pow(-129),
        SOp::OnePlusPhase(1, 4),
        SOp::OnePlusPhase(1, 1),
        SOp::Real(0.005),
        SOp::Real(0.7),
        SOp::Complex(0.3, -0.4),
        SOp::FromPhase(1, 3),
    ];
    if !quick {
        v.extend([SOp::New([5, 0, 0, 0], 100), SOp::New([1, 1, 1, 1], -1000), SOp::Sqrt2Pow(2000), SOp::Sqrt2Pow(-2001), SOp::FromPhase(1, 8), SOp::Real(1e-300), SOp::Complex(-55.13, 13e-60), SOp::New([1, 0, 0, 0], 1023)]);
    }
    v
}

fn unary_ops() -> Vec<SOp> {
    let mut v = vec![SOp::Conj];
    for p in [1, -1, 2, -2, 63, -63, 64, -64] {
        v.push(SOp::MulSqrt2(p));
    }
    for k in 1..8 {
        let (n, d) = (k, 4);
        v.push(SOp::MulPhase(n, d));
    }
    v.push(SOp::MulPhase(1, 3));
    for (n, d) in [(1, 4), (1, 2), (1, 1), (-1, 4)] {
        v.push(SOp::MulOnePlusPhase(n, d));
    }
    v
}

fn skey(s: &Scalar4) -> [(u8, i32, u64); 4] {
    s.raw_parts()
}

fn coefficient_max(s: &Scalar4) -> f64 {
    // two factors: powi(-1060) alone evaluates 1 / 2^1060 = 1 / inf = 0
    s.raw_parts().iter().map(|&(_, e, v)| { let e = e.clamp(-1130, 1000); (v as f64) * 2f64.powi(e / 2) * 2f64.powi(e - e / 2) }).fold(0.0, f64::max)
}

/// judge one scalar against its model; `path` is the history that produced it
pub fn judge_scalar(st: &mut Stats, s: &Scalar4, m: &Model, path: &[SOp]) {
    st.inc("evaluations");
    let w = || json!({"kind": "scalar", "path": path.iter().map(|o| o.to_json()).collect::<Vec<_>>()});
    let last = path.last().map(|o| o.to_json()[0].as_str().unwrap_or("").to_string()).unwrap_or_default();
    let rep = scalar_represented(s);
    let flagged = s.raw_parts().iter().any(|c| c.0 & 2 != 0);
    // constructors of irrational phases must flag their result
    if path.len() == 1 {
        if let SOp::FromPhase(_, d) | SOp::OnePlusPhase(_, d) = &path[0] {
            if 4 % d != 0 && !flagged {
                st.violation(Violation { sig: "scalar|irrational-constant-unflagged".into(), detail: "a phase outside k*pi/4 was converted without the approximate flag".into(), witness: w() });
            }
        }
    }
    // the zero test reads the stored coefficients, flagged or not: a scalar whose four coefficients are all zero is zero
    if s.is_zero() != rep.is_zero() {
        st.violation(Violation { sig: format!("scalar|is_zero-disagrees-with-coefficients|flagged={}", flagged), detail: format!("is_zero() = {} for stored coefficients {}", s.is_zero(), rep.key()), witness: w() });
    }
    let x = &m.exact;
    if !flagged {
        if !rep.eqv(x) {
            st.violation(Violation { sig: format!("scalar|unflagged-inexact|{}", last), detail: format!("not flagged approximate but represents {} instead of {}", rep.key(), x.key()), witness: w() });
            return;
        }
        // predicates must agree with the exact value
        let z = x.is_zero();
        let one = x.eqv(&Zw::one());
        if s.is_zero() != z || s.is_one() != one {
            st.violation(Violation { sig: "scalar|zero-one-test".into(), detail: format!("is_zero={} is_one={} for value {}", s.is_zero(), s.is_one(), x.key()), witness: w() });
        }
        // equality with an independently constructed copy of the same value (canonical representation)
        // exact phase / sqrt2 power recognition
        let got = guarded(|| s.exact_phase_and_sqrt2_pow());
        let mut want: Option<(Phase, i32)> = None;
        if !z {
            let c = x.canon();
            let nz: Vec<usize> = (0..4).filter(|&i| !c.c[i].is_zero()).collect();
            if nz.len() == 1 && c.c[nz[0]].abs() == BigInt::one() {
                let k = nz[0] as i64 + if c.c[nz[0]].is_negative() { 4 } else { 0 };
                want = Some((ph(k, 4), c.k));
            }
        }
        match got {
            Err(p) => st.violation(Violation { sig: "scalar|exact_phase|panic".into(), detail: p, witness: w() }),
            Ok(g) => {
                if g != want {
                    st.violation(Violation { sig: format!("scalar|exact_phase|wrong|{}", if want.is_some() { "missed" } else { "false-positive" }), detail: format!("value {} : got {:?} want {:?}", x.key(), g, want), witness: w() });
                }
            }
        }
        st.inc("nontrivial");
    } else {
        // approximate: the represented value stays within the accumulated rounding bound of the exact value
        let diff = rep.sub(x).to_c64().norm();
        let tol = 64.0 * m.err + 1e-15 * m.mag;
        if diff.is_finite() && tol.is_finite() && diff > tol {
            let xc = x.to_c64();
            let rc = rep.to_c64();
            st.violation(Violation { sig: format!("scalar|approx-far-off|{}", last), detail: format!("represents {:e}{:+e}i, the expression evaluates to {:e}{:+e}i (allowed error {:e})", rc.re, rc.im, xc.re, xc.im, tol), witness: w() });
        }
        // a flagged scalar is never recognised as an exact phase
        if let Ok(Some(g)) = guarded(|| s.exact_phase_and_sqrt2_pow()) {
            st.violation(Violation { sig: "scalar|exact_phase|approx-recognised".into(), detail: format!("flagged approximate but recognised as exactly {:?}", g), witness: w() });
        }
    }
    // conversion to a complex float: within 1e-12 of the represented value relative to the largest coefficient,
    // judged where every coefficient is zero or a normal f64 well inside the range
    let parts = s.raw_parts();
    let in_range = parts.iter().all(|&(_, e, v)| v == 0 || (e + 63 > -1000 && e + 64 < 1000));
    if in_range {
        match guarded(|| s.complex_value()) {
            Err(p) => st.violation(Violation { sig: format!("scalar|complex_value|panic|{}", if p.contains("Overflow") { "range-error" } else { "other" }), detail: p, witness: w() }),
            Ok(c) => {
                let want = rep.to_c64();
                let tol = 1e-12 * coefficient_max(s).max(f64::MIN_POSITIVE);
                if !((c.re - want.re).abs() <= tol && (c.im - want.im).abs() <= tol) {
                    let full = parts.iter().any(|&(_, _, v)| v & 1 == 1);
                    st.violation(Violation { sig: format!("scalar|complex_value|inaccurate|{}", if full { "full64-mantissa" } else { "other" }), detail: format!("complex_value() = {:e}{:+e}i, represented {:e}{:+e}i", c.re, c.im, want.re, want.im), witness: w() });
                }
            }
        }
    } else {
        st.inc("complex_value_out_of_range");
    }
}

pub fn explore_scalars(rep: &mut Report, quick: bool) {
    let t0 = Instant::now();
    let seed_ops = scalar_seeds(quick);
    let seeds: Vec<(SOp, Scalar4, Model)> = seed_ops.iter().map(|o| { let (s, m) = seed_value(o); (o.clone(), s, m) }).collect();
    let mut ops = unary_ops();
    for i in 0..seeds.len() {
        for l in [false, true] {
            ops.push(SOp::Add(i, l));
            ops.push(SOp::Sub(i, l));
            ops.push(SOp::Mul(i, l));
        }
    }
    let depth = if quick { 2 } else { 3 };
    let cap = if quick { 400_000 } else { 6_000_000 };
    let mut seen: BTreeSet<[(u8, i32, u64); 4]> = BTreeSet::new();
    let mut frontier: Vec<(Scalar4, Model, Vec<SOp>)> = vec![];
    let mut total = Stats::default();
    for (o, s, m) in &seeds {
        total.inc("cases");
        judge_scalar(&mut total, s, m, &[o.clone()]);
        if seen.insert(skey(s)) {
            total.inc("states");
            frontier.push((*s, m.clone(), vec![o.clone()]));
        }
    }
    let mut capped = false;
    for level in 0..depth + 1 {
        if level == depth {
            // one extra level from the states with an unusual representation: a zero coefficient that carries the
            // approx flag (left by a cancellation); these are few, and the flag must survive the next operation
            frontier.retain(|(s, _, _)| s.raw_parts().iter().any(|c| c.2 == 0 && c.0 & 2 != 0));
            total.add("flagged_zero_states_found", frontier.len() as u64);
            // bounded: the thorough tier finds millions of them (absorbed additions at extreme exponents)
            let cap_extra = if quick { usize::MAX } else { 150_000 };
            if frontier.len() > cap_extra {
                frontier.truncate(cap_extra);
                capped = true;
            }
            total.add("flagged_zero_states_extended", frontier.len() as u64);
        }
        // expand the frontier in parallel, then merge (deterministic order)
        #[allow(clippy::type_complexity)]
        let results: Vec<(Stats, Vec<([(u8, i32, u64); 4], Option<(Scalar4, Model, Vec<SOp>)>)>)> = {
            use rayon::prelude::*;
            frontier
                .par_iter()
                .map(|(s, m, path)| {
                    let mut st = Stats::default();
                    let mut out = vec![];
                    for op in &ops {
                        st.inc("transitions");
                        let mut p2 = path.clone();
                        p2.push(op.clone());
                        match guarded(|| apply(op, s, m, &seeds)) {
                            Err(p) => st.violation(Violation { sig: format!("scalar|op-panic|{}", op.to_json()[0].as_str().unwrap_or("")), detail: p, witness: json!({"kind": "scalar", "path": p2.iter().map(|o| o.to_json()).collect::<Vec<_>>()}) }),
                            Ok((s2, m2)) => {
                                st.inc("cases");
                                judge_scalar(&mut st, &s2, &m2, &p2);
                                // on the last regular level only the states that get the extra level keep their payload
                                // (model and history); the others are only counted (16 M payloads exceeded the memory cap)
                                let keep = level + 1 < depth || (level + 1 == depth && s2.raw_parts().iter().any(|c| c.2 == 0 && c.0 & 2 != 0));
                                out.push((skey(&s2), if keep { Some((s2, m2, p2)) } else { None }));
                            }
                        }
                    }
                    (st, out)
                })
                .collect()
        };
        let mut next = vec![];
        for (st, out) in results {
            total = total.merge(st);
            for (k, payload) in out {
                if seen.len() >= cap {
                    capped = true;
                    break;
                }
                if seen.insert(k) {
                    total.inc("states");
                    if let Some(x) = payload {
                        next.push(x);
                    }
                }
            }
        }
        frontier = next;
    }
    total.sample(3, || json!({"history": frontier.first().map(|f| f.2.iter().map(|o| o.to_json()).collect::<Vec<_>>())}));
    rep.absorb(
        "scalar histories",
        &format!("BFS closure to depth {} over {{+,-,x with every seed on either side, conj, mul_sqrt2_pow(+-1,+-2,+-63,+-64), mul_phase(k/4, 1/3), mul_one_plus_phase}} from {} seeds (integers, omega powers, sqrt2 powers, big mantissas, floats, rational phases), de-duplicated on raw parts", depth, seeds.len()),
        !capped,
        if capped { Some(format!("state cap {} reached at the last level", cap)) } else { None },
        t0,
        total,
    );
}

pub fn run(rep: &mut Report) {
    rep.rule = "Part A: case = Dyadic value / ordered pair built through the public API, every operation compared with BigRational arithmetic on the raw parts; Part B: state = Scalar4 raw parts reached by an expression history, transition = one public operation, model = exact Z[omega][1/sqrt2] value (None once an approximate constant entered) plus a float shadow; non-trivial = result not flagged approximate and exactly equal to the model".into();
    rep.assume("values are built through public constructors and arithmetic only (no raw constructor): only reachable representations are explored; exponents up to +-1100 / sqrt2 powers up to +-2001, not the i32 extremes");
    rep.assume("f64 conversion is judged wherever the represented magnitude is a normal f64; beyond that range any answer is accepted and counted");
    let quick = rep.quick();
    let t0 = Instant::now();
    let alpha = dyadic_alphabet(quick);
    let mut st = Stats::default();
    for s in &alpha {
        dyadic_unary(&mut st, s);
    }
    st.sample(2, || alpha[30].to_json());
    rep.absorb("dyadic values", &format!("{} values: mantissas {{1,3,5,2^31+1,2^32+-1,2^53-1,2^62+1,2^63-1}} x boundary exponents x sign, full 64-bit / all-ones / overflowing products, f64 constants incl. subnormal and extremes: construction, normal form, f64 conversion and round trip", alpha.len()), true, None, t0, st);
    let t0 = Instant::now();
    let stats = sweep(&alpha, |st, _, a| {
        for b in &alpha {
            dyadic_pair(st, a, b);
        }
    });
    rep.absorb("dyadic pairs", "all ordered pairs: + - x (exactness / flag honesty / closeness), cmp against the order of the reals, abs_diff_eq", true, None, t0, stats);
    explore_scalars(rep, quick);
}

pub fn replay(w: &Value) -> Option<Violation> {
    let mut st = Stats::default();
    match w["kind"].as_str()? {
        "dyadic1" => dyadic_unary(&mut st, &DSpec::from_json(&w["a"])?),
        "dyadic2" => {
            dyadic_pair(&mut st, &DSpec::from_json(&w["a"])?, &DSpec::from_json(&w["b"])?);
            let op = w["op"].as_str().unwrap_or("").to_string();
            st.viols.retain(|k, _| k.contains(&format!("|{}|", op)));
        }
        _ => {
            let path: Vec<SOp> = w["path"].as_array()?.iter().filter_map(SOp::from_json).collect();
            // binary operations index the thorough seed list when it is longer; try both
            for quick in [true, false] {
                let seed_ops = scalar_seeds(quick);
                let seeds: Vec<(SOp, Scalar4, Model)> = seed_ops.iter().map(|o| { let (s, m) = seed_value(o); (o.clone(), s, m) }).collect();
                let ok = path.iter().all(|o| match o { SOp::Add(i, _) | SOp::Sub(i, _) | SOp::Mul(i, _) => *i < seeds.len(), _ => true });
                if !ok {
                    continue;
                }
                let (mut s, mut m) = seed_value(&path[0]);
                for op in &path[1..] {
                    let (s2, m2) = apply(op, &s, &m, &seeds);
                    s = s2;
                    m = m2;
                }
                let mut st2 = Stats::default();
                judge_scalar(&mut st2, &s, &m, &path);
                println!("history {:?}\n  raw parts {:?}", path, s.raw_parts());
                if !st2.viols.is_empty() || !quick {
                    st = st2;
                    break;
                }
            }
        }
    }
    st.viols.into_values().next().map(|(_, v)| v)
}
