//! Bookkeeping shared by all checks: counters, violation classes, known findings, evidence, exit code.

use serde_json::{json, Value};
use std::collections::BTreeMap;
use std::sync::atomic::{AtomicU64, Ordering};
use std::sync::Mutex;
use std::time::Instant;

pub const VERIF_DIR: &str = "/verif";

/// where evidence and replay files go: /verif, unless a scratch pipeline (seeded/recheck_all.sh) redirects them
pub fn out_dir() -> String {
    std::env::var("QZV_OUT_DIR").unwrap_or_else(|_| VERIF_DIR.to_string())
}

/// One observed property violation.
#[derive(Clone, Debug)]
pub struct Violation {
    /// class signature: site + failure kind + classifier features (stable across runs)
    pub sig: String,
    /// human readable observed-vs-expected
    pub detail: String,
    /// the replayable case
    pub witness: Value,
}

/// Per-thread accumulator, merged at the end of a sweep.
#[derive(Default, Clone)]
pub struct Stats {
    pub counters: BTreeMap<&'static str, u64>,
    pub viols: BTreeMap<String, (u64, Violation)>,
    pub samples: Vec<Value>,
}

impl Stats {
    #[inline]
    pub fn inc(&mut self, k: &'static str) {
        *self.counters.entry(k).or_insert(0) += 1;
    }
    #[inline]
    pub fn add(&mut self, k: &'static str, n: u64) {
        *self.counters.entry(k).or_insert(0) += n;
    }
    pub fn get(&self, k: &str) -> u64 {
        self.counters.get(k).copied().unwrap_or(0)
    }
    pub fn violation(&mut self, v: Violation) {
        match self.viols.get_mut(&v.sig) {
            Some(e) => e.0 += 1,
            None => {
                self.viols.insert(v.sig.clone(), (1, v));
            }
        }
    }
    pub fn sample(&mut self, max: usize, f: impl FnOnce() -> Value) {
        if self.samples.len() < max {
            self.samples.push(f());
        }
    }
    pub fn merge(mut self, o: Stats) -> Stats {
        for (k, v) in o.counters {
            *self.counters.entry(k).or_insert(0) += v;
        }
        for (k, (n, v)) in o.viols {
            match self.viols.get_mut(&k) {
                Some(e) => e.0 += n,
                None => {
                    self.viols.insert(k, (n, v));
                }
            }
        }
        for s in o.samples {
            if self.samples.len() < 12 {
                self.samples.push(s);
            }
        }
        self
    }
}

#[derive(Clone, Debug)]
pub struct Family {
    pub name: String,
    pub description: String,
    pub cases: u64,
    pub exhaustive: bool,
    pub cap_hit: Option<String>,
    pub wall_s: f64,
}

pub struct Report {
    pub id: String,
    pub tier: String,
    pub seed: i64,
    pub start: Instant,
    pub total: Stats,
    pub families: Vec<Family>,
    pub assumptions: Vec<String>,
    pub rule: String,
    pub extra: BTreeMap<String, Value>,
    pub machinery_errors: Vec<String>,
}

#[derive(Clone, Debug)]
pub struct Known {
    pub property: String,
    pub signature: String,
    pub status: String,
    pub what: String,
    pub max_cases: Option<BTreeMap<String, u64>>,
}

pub fn load_known() -> Vec<Known> {
    let p = format!("{}/known_findings.json", VERIF_DIR);
    let Ok(txt) = std::fs::read_to_string(&p) else { return vec![] };
    let v: Value = serde_json::from_str(&txt).expect("known_findings.json is not valid JSON");
    let mut out = vec![];
    for e in v["findings"].as_array().cloned().unwrap_or_default() {
        out.push(Known {
            property: e["property"].as_str().unwrap_or("").to_string(),
            signature: e["signature"].as_str().unwrap_or("").to_string(),
            status: e["status"].as_str().unwrap_or("known").to_string(),
            what: e["what"].as_str().unwrap_or("").to_string(),
            max_cases: e.get("max_cases").and_then(|m| m.as_object()).map(|m| m.iter().map(|(k, v)| (k.clone(), v.as_u64().unwrap_or(0))).collect()),
        });
    }
    out
}

fn sig_matches(pattern: &str, sig: &str) -> bool {
    if let Some(p) = pattern.strip_suffix('*') {
        sig.starts_with(p)
    } else {
        pattern == sig
    }
}

fn fnv(s: &str) -> u64 {
    let mut h: u64 = 0xcbf29ce484222325;
    for b in s.bytes() {
        h ^= b as u64;
        h = h.wrapping_mul(0x100000001b3);
    }
    h
}

impl Report {
    pub fn new(id: &str, tier: &str) -> Report {
        let seed = std::env::var("VERIF_SEED").ok().and_then(|s| s.parse().ok()).unwrap_or(0);
        Report {
            id: id.to_string(),
            tier: tier.to_string(),
            seed,
            start: Instant::now(),
            total: Stats::default(),
            families: vec![],
            assumptions: vec![],
            rule: String::new(),
            extra: BTreeMap::new(),
            machinery_errors: vec![],
        }
    }
    pub fn quick(&self) -> bool {
        self.tier == "quick"
    }
    pub fn absorb(&mut self, name: &str, description: &str, exhaustive: bool, cap_hit: Option<String>, t0: Instant, s: Stats) {
        let cases = s.get("cases");
        eprintln!(
            "[{}] family {:<28} cases={:<10} evals={:<11} nontrivial={:<10} violclasses={} ({:.1}s)",
            self.id,
            name,
            cases,
            s.get("evaluations"),
            s.get("nontrivial"),
            s.viols.len(),
            t0.elapsed().as_secs_f64()
        );
        self.families.push(Family { name: name.to_string(), description: description.to_string(), cases, exhaustive, cap_hit, wall_s: t0.elapsed().as_secs_f64() });
        let mut fam_counters = serde_json::Map::new();
        for (k, v) in &s.counters {
            fam_counters.insert(k.to_string(), json!(v));
        }
        self.extra.insert(format!("family_counters/{}", name), Value::Object(fam_counters));
        let t = std::mem::take(&mut self.total);
        self.total = t.merge(s);
    }
    pub fn assume(&mut self, s: &str) {
        self.assumptions.push(s.to_string());
    }

    /// Write evidence, print KNOWN-FINDING / VIOLATION lines, return the exit code.
    pub fn finish(mut self) -> i32 {
        let known = load_known();
        let mut unlisted = 0u64;
        let mut known_hit = 0u64;
        let mut lines = vec![];
        let mut vio_summary = vec![];
        let dir = format!("{}/replays/{}", out_dir(), self.id);
        for (sig, (count, v)) in &self.total.viols {
            let k = known.iter().find(|k| k.property == self.id && k.status == "known" && sig_matches(&k.signature, sig));
            let mut listed = k.is_some();
            let mut over = None;
            if let Some(k) = k {
                if let Some(mc) = &k.max_cases {
                    if let Some(&m) = mc.get(&self.tier) {
                        // counts are summed over all signatures matching this entry
                        let total: u64 = self.total.viols.iter().filter(|(s, _)| sig_matches(&k.signature, s)).map(|(_, (n, _))| *n).sum();
                        if total > m {
                            listed = false;
                            over = Some((total, m));
                        }
                    }
                }
            }
            if listed {
                known_hit += 1;
                lines.push(format!("KNOWN-FINDING: property={} {} [{} cases] ({})", self.id, sig, count, k.unwrap().what));
                vio_summary.push(json!({"signature": sig, "cases": count, "known": true, "detail": v.detail, "witness": v.witness}));
            } else {
                unlisted += 1;
                let _ = std::fs::create_dir_all(&dir);
                let path = format!("{}/{:016x}.json", dir, fnv(sig));
                let body = json!({"property": self.id, "signature": sig, "cases_in_class": count, "detail": v.detail, "witness": v.witness,
                    "over_known_count": over.map(|(t, m)| json!({"seen": t, "listed_max": m}))});
                let _ = std::fs::write(&path, serde_json::to_string_pretty(&body).unwrap());
                lines.push(format!("VIOLATION property={} replay={}", self.id, path));
                eprintln!("[{}] violation class {} ({} cases): {}", self.id, sig, count, v.detail);
                vio_summary.push(json!({"signature": sig, "cases": count, "known": false, "detail": v.detail, "witness": v.witness}));
            }
        }
        let wall = self.start.elapsed().as_secs_f64();
        let states = self.total.get("states").max(self.total.get("cases"));
        let transitions = self.total.get("transitions").max(self.total.get("evaluations"));
        let mut coverage = serde_json::Map::new();
        coverage.insert("states".into(), json!(states));
        coverage.insert("transitions".into(), json!(transitions));
        coverage.insert("traces_validated_against_impl".into(), json!(transitions));
        coverage.insert("evaluations".into(), json!(self.total.get("evaluations")));
        coverage.insert("distinct_nontrivial".into(), json!(self.total.get("nontrivial")));
        coverage.insert("rule".into(), json!(self.rule));
        if self.total.samples.is_empty() {
            // the schema wants at least one concrete explored case: fall back to the family descriptions
            let fb: Vec<Value> = self.families.iter().take(3).map(|f| json!({"family": f.name, "what": f.description})).collect();
            self.total.samples = fb;
        }
        coverage.insert("samples".into(), json!(self.total.samples));
        coverage.insert("exhaustive".into(), json!(self.families.iter().all(|f| f.exhaustive && f.cap_hit.is_none())));
        coverage.insert(
            "families".into(),
            json!(self.families.iter().map(|f| json!({"name": f.name, "what": f.description, "cases": f.cases, "exhaustive_within_bound": f.exhaustive, "cap_hit": f.cap_hit, "wall_s": f.wall_s})).collect::<Vec<_>>()),
        );
        let mut counters = serde_json::Map::new();
        for (k, v) in &self.total.counters {
            counters.insert(k.to_string(), json!(v));
        }
        coverage.insert("counters".into(), Value::Object(counters));
        for (k, v) in std::mem::take(&mut self.extra) {
            coverage.insert(k, v);
        }
        coverage.insert("violation_classes".into(), json!(vio_summary));
        let ev = json!({
            "property_id": self.id,
            "tier": self.tier,
            "seed": self.seed,
            "level": "model_checking",
            "coverage": Value::Object(coverage),
            "assumptions": self.assumptions,
            "wall_s": wall,
            "violations": unlisted,
            "known_findings_reproduced": known_hit,
            "machinery_errors": self.machinery_errors,
        });
        let _ = std::fs::create_dir_all(format!("{}/evidence", out_dir()));
        std::fs::write(format!("{}/evidence/{}.json", out_dir(), self.id), serde_json::to_string_pretty(&ev).unwrap()).expect("cannot write evidence");
        for l in &lines {
            println!("{}", l);
        }
        println!(
            "[{}] tier={} states={} transitions={} nontrivial={} known_classes={} unlisted_classes={} wall={:.1}s",
            self.id,
            self.tier,
            states,
            transitions,
            self.total.get("nontrivial"),
            known_hit,
            unlisted,
            wall
        );
        if !self.machinery_errors.is_empty() {
            for e in &self.machinery_errors {
                eprintln!("MACHINERY ERROR: {}", e);
            }
            return 2;
        }
        if unlisted > 0 {
            1
        } else {
            0
        }
    }
}

// ---------------------------------------------------------------------------------------------
// panic capture
// ---------------------------------------------------------------------------------------------

thread_local! {
    static LAST_PANIC: std::cell::RefCell<String> = const { std::cell::RefCell::new(String::new()) };
}

pub fn install_quiet_panic_hook() {
    std::panic::set_hook(Box::new(|info| {
        let loc = info.location().map(|l| format!("{}:{}", l.file().rsplit('/').next().unwrap_or(""), l.line())).unwrap_or_default();
        let msg = if let Some(s) = info.payload().downcast_ref::<&str>() {
            s.to_string()
        } else if let Some(s) = info.payload().downcast_ref::<String>() {
            s.clone()
        } else {
            "?".to_string()
        };
        // a failure of the machinery itself (not of the subject) is never swallowed, whichever thread raises it
        if msg.starts_with("MACHINERY") {
            eprintln!("{} @ {}", msg, loc);
        }
        LAST_PANIC.with(|p| *p.borrow_mut() = format!("{} @ {}", msg, loc));
    }));
}

pub fn last_panic() -> String {
    LAST_PANIC.with(|p| p.borrow().clone())
}

/// file:line of the last panic (stable part for signatures)
pub fn last_panic_site() -> String {
    let s = last_panic();
    s.rsplit(" @ ").next().unwrap_or("").to_string()
}

pub fn guarded<T>(f: impl FnOnce() -> T) -> Result<T, String> {
    match std::panic::catch_unwind(std::panic::AssertUnwindSafe(f)) {
        Ok(v) => Ok(v),
        Err(_) => Err(last_panic()),
    }
}

// ---------------------------------------------------------------------------------------------
// watchdog: a subject call that does not return is reported as non-termination
// ---------------------------------------------------------------------------------------------

pub struct Watch {
    pub tick: AtomicU64,
    pub slots: Vec<(AtomicU64, AtomicU64, AtomicU64)>, // (tick at start or 0 when idle, outer, inner)
}

pub static WATCH: std::sync::OnceLock<Watch> = std::sync::OnceLock::new();
static WATCH_CTX: Mutex<Option<(String, String)>> = Mutex::new(None);

pub fn watchdog_start(id: &str, tier: &str, horizon_s: u64) {
    let n = rayon::current_num_threads() + 2;
    let _ = WATCH.set(Watch { tick: AtomicU64::new(1), slots: (0..n).map(|_| (AtomicU64::new(0), AtomicU64::new(0), AtomicU64::new(0))).collect() });
    *WATCH_CTX.lock().unwrap() = Some((id.to_string(), tier.to_string()));
    let id = id.to_string();
    std::thread::spawn(move || loop {
        std::thread::sleep(std::time::Duration::from_secs(1));
        let w = WATCH.get().unwrap();
        let now = w.tick.fetch_add(1, Ordering::Relaxed) + 1;
        // resident-set cap: a subject call that allocates without bound is reported before the machine runs out of memory
        // (blamed on the call that has been running longest)
        let rss_gb = std::fs::read_to_string("/proc/self/statm").ok().and_then(|t| t.split_whitespace().nth(1).and_then(|x| x.parse::<f64>().ok())).map(|pages| pages * 4096.0 / 1e9).unwrap_or(0.0);
        let cap_gb: f64 = std::env::var("QZV_RSS_CAP_GB").ok().and_then(|x| x.parse().ok()).unwrap_or(24.0);
        if rss_gb > cap_gb {
            if let Some((i, s)) = w.slots.iter().enumerate().filter(|(_, s)| s.0.load(Ordering::Relaxed) != 0).min_by_key(|(_, s)| s.0.load(Ordering::Relaxed)) {
                let outer = s.1.load(Ordering::Relaxed);
                let inner = s.2.load(Ordering::Relaxed);
                let dir = format!("{}/replays/{}", out_dir(), id);
                let _ = std::fs::create_dir_all(&dir);
                let path = format!("{}/hang-{}-{}.json", dir, outer, inner);
                let body = json!({"property": id, "signature": "nontermination|runaway-allocation", "detail": format!("resident set {:.1} GB exceeds the cap of {} GB; longest-running subject call: worker {} for {} s", rss_gb, cap_gb, i, now.saturating_sub(s.0.load(Ordering::Relaxed))), "witness": {"kind": "index", "outer": outer, "inner": inner}});
                let _ = std::fs::write(&path, serde_json::to_string_pretty(&body).unwrap());
                println!("VIOLATION property={} replay={}", id, path);
            } else {
                eprintln!("MACHINERY ERROR: resident set {:.1} GB exceeds the cap with no subject call in flight", rss_gb);
                std::process::exit(2);
            }
            std::process::exit(1);
        }
        for (i, s) in w.slots.iter().enumerate() {
            let st = s.0.load(Ordering::Relaxed);
            if st != 0 && now.saturating_sub(st) > horizon_s {
                let outer = s.1.load(Ordering::Relaxed);
                let inner = s.2.load(Ordering::Relaxed);
                let dir = format!("{}/replays/{}", out_dir(), id);
                let _ = std::fs::create_dir_all(&dir);
                let path = format!("{}/hang-{}-{}.json", dir, outer, inner);
                let body = json!({"property": id, "signature": "nontermination", "detail": format!("subject call did not return within {} s (worker {})", horizon_s, i), "witness": {"kind": "index", "outer": outer, "inner": inner}});
                let _ = std::fs::write(&path, serde_json::to_string_pretty(&body).unwrap());
                println!("VIOLATION property={} replay={}", id, path);
                std::process::exit(1);
            }
        }
    });
}

/// mark the calling worker as busy with case (outer, inner)
#[inline]
pub fn watch_begin(outer: u64, inner: u64) {
    if let Some(w) = WATCH.get() {
        let i = rayon::current_thread_index().map(|x| x + 1).unwrap_or(0);
        if let Some(s) = w.slots.get(i) {
            s.1.store(outer, Ordering::Relaxed);
            s.2.store(inner, Ordering::Relaxed);
            s.0.store(w.tick.load(Ordering::Relaxed), Ordering::Relaxed);
        }
    }
}
#[inline]
pub fn watch_end() {
    if let Some(w) = WATCH.get() {
        let i = rayon::current_thread_index().map(|x| x + 1).unwrap_or(0);
        if let Some(s) = w.slots.get(i) {
            s.0.store(0, Ordering::Relaxed);
        }
    }
}
