//! Conversions between quizx objects and the reference objects of `qzv-ref`.

use num::bigint::BigInt;
use num::complex::Complex64;
use quizx::circuit::Circuit;
use quizx::gate::*;
use quizx::graph::*;
use quizx::params::Parity;
use quizx::scalar::Scalar4;
use qzv_ref::circuit::{RCircuit, RG};
use qzv_ref::diagram::{Kind, RDiagram};
use qzv_ref::ring::*;

#[derive(Debug, Clone, PartialEq)]
pub enum ConvErr {
    ApproxScalar,
    NonZx(String),
    Phase,
}

/// exact value of a stored scalar from its raw parts; None when flagged approximate
pub fn scalar_exact(s: &Scalar4) -> Option<Zw> {
    let mut acc = Zw::zero();
    for (i, (flags, exp, val)) in s.raw_parts().iter().enumerate() {
        if *val == 0 {
            continue;
        }
        if flags & 2 != 0 {
            return None;
        }
        acc = acc.add(&dyadic_term(i, *flags, *exp, *val));
    }
    Some(acc)
}

/// represented value regardless of the approx flag
pub fn scalar_represented(s: &Scalar4) -> Zw {
    let mut acc = Zw::zero();
    for (i, (flags, exp, val)) in s.raw_parts().iter().enumerate() {
        if *val != 0 {
            acc = acc.add(&dyadic_term(i, *flags, *exp, *val));
        }
    }
    acc
}

fn dyadic_term(i: usize, flags: u8, exp: i32, val: u64) -> Zw {
    let tz = val.trailing_zeros();
    let v = BigInt::from(val >> tz);
    let e = exp as i64 + tz as i64;
    let mut c = [BigInt::from(0), BigInt::from(0), BigInt::from(0), BigInt::from(0)];
    c[i] = if flags & 1 == 1 { -v } else { v };
    Zw { c, k: (2 * e) as i32 }
}

pub fn scalar_small(s: &Scalar4) -> Option<ZwS> {
    let mut acc = ZwS::zero();
    for (i, (flags, exp, val)) in s.raw_parts().iter().enumerate() {
        if *val == 0 {
            continue;
        }
        if flags & 2 != 0 {
            return None;
        }
        let tz = val.trailing_zeros();
        let v = (val >> tz) as i128;
        let e = *exp as i64 + tz as i64;
        let mut c = [0i128; 4];
        c[i] = if flags & 1 == 1 { -v } else { v };
        acc = acc.add(&ZwS { c, k: (2 * e) as i32 });
    }
    Some(acc)
}

/// floating value of a scalar from raw parts (independent of quizx's own conversion)
pub fn scalar_c64(s: &Scalar4) -> Complex64 {
    scalar_represented(s).to_c64()
}

pub trait ScalarInto: Ring {
    fn from_scalar(s: &Scalar4) -> Result<Self, ConvErr>;
}
impl ScalarInto for Zw {
    fn from_scalar(s: &Scalar4) -> Result<Zw, ConvErr> {
        scalar_exact(s).ok_or(ConvErr::ApproxScalar)
    }
}
impl ScalarInto for ZwS {
    fn from_scalar(s: &Scalar4) -> Result<ZwS, ConvErr> {
        scalar_small(s).ok_or(ConvErr::ApproxScalar)
    }
}
impl ScalarInto for Cf {
    fn from_scalar(s: &Scalar4) -> Result<Cf, ConvErr> {
        Ok(Cf(scalar_c64(s)))
    }
}

/// read the constant bit of a parity (no accessor in quizx)
pub fn parity_const(p: &Parity) -> bool {
    let vars: Vec<u32> = p.iter().collect();
    *p == Parity::new(vars, true)
}

pub fn parity_value(p: &Parity, assignment: u32) -> bool {
    let mut b = parity_const(p);
    for v in p.iter() {
        if (assignment >> v) & 1 == 1 {
            b = !b;
        }
    }
    b
}

/// Reference diagram of a quizx graph.  `assignment`: Some(a) instantiates boolean variables (adds pi
/// on odd parity and multiplies in the scalar factors whose condition holds); None requires no variables.
pub fn to_rd<G: GraphLike, R: ScalarInto>(g: &G, assignment: Option<u32>) -> Result<RDiagram<R>, ConvErr> {
    let mut scalar = R::from_scalar(g.scalar())?;
    if let Some(a) = assignment {
        for (e, s) in g.scalar_factors() {
            if e.iter().all(|p| parity_value(p, a)) {
                scalar = scalar.mul(&R::from_scalar(s)?);
            }
        }
    } else if g.scalar_factors().next().is_some() {
        return Err(ConvErr::NonZx("scalar factors without assignment".into()));
    }
    let mut d = RDiagram::new(scalar);
    for v in g.vertices() {
        let vd = g.vertex_data(v);
        let k = match vd.ty {
            VType::B => Kind::B,
            VType::Z => Kind::Z,
            VType::X => Kind::X,
            t => return Err(ConvErr::NonZx(format!("{:?}", t))),
        };
        let r = vd.phase.to_rational();
        let (mut n, dd) = (*r.numer(), *r.denom());
        match assignment {
            Some(a) => {
                if parity_value(&vd.vars, a) {
                    n += dd;
                }
            }
            None => {
                if !vd.vars.is_empty() || parity_const(&vd.vars) {
                    return Err(ConvErr::NonZx("vars without assignment".into()));
                }
            }
        }
        d.verts.insert(v, (k, n, dd));
    }
    for (s, t, et) in g.edges() {
        let h = match et {
            EType::N => false,
            EType::H => true,
            EType::Wio => return Err(ConvErr::NonZx("Wio".into())),
        };
        d.edges.push((s, t, h));
    }
    d.inputs = g.inputs().clone();
    d.outputs = g.outputs().clone();
    Ok(d)
}

#[derive(Debug, Clone)]
pub enum Tensor {
    Exact(Vec<Zw>),
    /// float tensor plus an upper bound on the magnitude any entry could have (number of summands x summand size):
    /// rounding noise is judged relative to it, so that 1e-17 and 0 compare equal
    Float(Vec<Cf>, f64),
    /// not a well-formed diagram / not evaluable, with reason
    Bad(String),
}

impl Tensor {
    pub fn noise_scale(&self) -> f64 {
        match self {
            Tensor::Float(_, s) => *s,
            _ => 0.0,
        }
    }
    pub fn is_bad(&self) -> bool {
        matches!(self, Tensor::Bad(_))
    }
    pub fn len(&self) -> usize {
        match self {
            Tensor::Exact(v) => v.len(),
            Tensor::Float(v, _) => v.len(),
            Tensor::Bad(_) => 0,
        }
    }
    pub fn to_float(&self) -> Option<Vec<Cf>> {
        match self {
            Tensor::Exact(v) => Some(v.iter().map(|x| Cf(x.to_c64())).collect()),
            Tensor::Float(v, _) => Some(v.clone()),
            Tensor::Bad(_) => None,
        }
    }
    pub fn show(&self) -> String {
        let s = self.show_full();
        if s.len() > 600 {
            format!("{} ... ({} entries)", &s[..s.char_indices().nth(600).map(|x| x.0).unwrap_or(s.len())], self.len())
        } else {
            s
        }
    }
    pub fn show_full(&self) -> String {
        match self {
            Tensor::Exact(v) => format!("[{}]", v.iter().map(|x| x.key()).collect::<Vec<_>>().join(" ; ")),
            Tensor::Float(v, _) => format!("[{}]", v.iter().map(|x| format!("{:.6}{:+.6}i", x.0.re, x.0.im)).collect::<Vec<_>>().join(" ; ")),
            Tensor::Bad(s) => format!("<{}>", s),
        }
    }
}

pub const REL_TOL: f64 = 1e-9;

/// equality of two evaluated tensors: exact when both exact, tolerance otherwise
pub fn tensors_equal(a: &Tensor, b: &Tensor) -> bool {
    match (a, b) {
        (Tensor::Exact(x), Tensor::Exact(y)) => tensor_eq(x, y, 0.0),
        (Tensor::Bad(_), _) | (_, Tensor::Bad(_)) => false,
        _ => {
            let (x, y) = (a.to_float().unwrap(), b.to_float().unwrap());
            if x.len() != y.len() {
                return false;
            }
            let scale = max_abs(&x).max(max_abs(&y)).max(1e-4 * a.noise_scale().max(b.noise_scale()));
            x.iter().zip(&y).all(|(p, q)| (p.0 - q.0).norm() <= REL_TOL * scale)
        }
    }
}
pub fn tensors_prop(a: &Tensor, b: &Tensor) -> bool {
    match (a, b) {
        (Tensor::Exact(x), Tensor::Exact(y)) => tensor_prop(x, y, 0.0),
        (Tensor::Bad(_), _) | (_, Tensor::Bad(_)) => false,
        _ => {
            // entries below the rounding-noise floor count as zero
            let clean = |t: &Tensor| -> Vec<Cf> {
                let v = t.to_float().unwrap();
                let floor = 1e-13 * t.noise_scale();
                v.into_iter().map(|x| if x.0.norm() <= floor { Cf(num::complex::Complex64::new(0.0, 0.0)) } else { x }).collect()
            };
            tensor_prop(&clean(a), &clean(b), REL_TOL)
        }
    }
}

/// Evaluate a quizx graph with the reference evaluator.  Exact whenever possible (phases k*pi/4 and an
/// exact scalar), floating otherwise.  Uses the fast ring first and falls back to BigInt on overflow.
pub fn eval_graph<G: GraphLike>(g: &G, assignment: Option<u32>) -> Tensor {
    // fast exact path
    overflow_reset();
    match to_rd::<G, ZwS>(g, assignment) {
        Ok(d) => match d.eval() {
            Ok(t) => {
                if !overflow_seen() {
                    return Tensor::Exact(t.iter().map(|x| x.to_big()).collect());
                }
                match to_rd::<G, Zw>(g, assignment) {
                    Ok(d) => match d.eval() {
                        Ok(t) => return Tensor::Exact(t),
                        Err(e) => return Tensor::Bad(format!("{:?}", e)),
                    },
                    Err(e) => return Tensor::Bad(format!("{:?}", e)),
                }
            }
            Err(qzv_ref::diagram::Malformed::Phase(_)) => {}
            Err(e) => return Tensor::Bad(format!("{:?}", e)),
        },
        Err(ConvErr::ApproxScalar) => {}
        Err(e) => return Tensor::Bad(format!("{:?}", e)),
    }
    match to_rd::<G, Cf>(g, assignment) {
        Ok(d) => match d.eval() {
            Ok(t) => {
                // every entry is a sum of at most 2^spiders terms of modulus |scalar| * 2^(-#Hadamard-kind edges / 2)
                let bound = d.scalar.0.norm() * (d.num_spiders() as f64).exp2();
                Tensor::Float(t, bound.max(f64::MIN_POSITIVE))
            }
            Err(e) => Tensor::Bad(format!("{:?}", e)),
        },
        Err(e) => Tensor::Bad(format!("{:?}", e)),
    }
}

// ---------------------------------------------------------------------------------------------
// circuits
// ---------------------------------------------------------------------------------------------

fn ph(g: &Gate) -> (i64, i64) {
    let r = g.phase.to_rational();
    (*r.numer(), *r.denom())
}

/// Reference gate list of a quizx circuit.  `outcomes`: bit for the k-th measurement in circuit order.
pub fn to_rcircuit(c: &Circuit, outcomes: &[u8]) -> Option<RCircuit> {
    let mut gates = vec![];
    let mut m = 0usize;
    for g in &c.gates {
        let q = &g.qs;
        let (n, d) = ph(g);
        let need = |k: usize| if q.len() == k { Some(()) } else { None };
        gates.push(match g.t {
            ZPhase => {
                need(1)?;
                RG::ZPhase(q[0], n, d)
            }
            XPhase => {
                need(1)?;
                RG::XPhase(q[0], n, d)
            }
            Z => RG::ZPhase(q[0], 1, 1),
            S => RG::ZPhase(q[0], 1, 2),
            T => RG::ZPhase(q[0], 1, 4),
            Sdg => RG::ZPhase(q[0], -1, 2),
            Tdg => RG::ZPhase(q[0], -1, 4),
            NOT => RG::X(q[0]),
            HAD => RG::H(q[0]),
            CNOT => {
                need(2)?;
                RG::CX(q[0], q[1])
            }
            CZ => {
                need(2)?;
                RG::CZ(q[0], q[1])
            }
            XCX => {
                need(2)?;
                RG::XCX(q[0], q[1])
            }
            SWAP => {
                need(2)?;
                RG::Swap(q[0], q[1])
            }
            CCZ => {
                need(3)?;
                RG::CCZ(q[0], q[1], q[2])
            }
            TOFF => {
                need(3)?;
                RG::Toff(q[0], q[1], q[2])
            }
            ParityPhase => RG::PP(q.clone(), n, d),
            InitAncilla => RG::Init(q[0]),
            PostSelect => RG::Post(q[0]),
            Measure => {
                m += 1;
                RG::Meas(q[0], *outcomes.get(m - 1)?)
            }
            MeasureReset => {
                m += 1;
                RG::MeasReset(q[0], *outcomes.get(m - 1)?)
            }
            UnknownGate => return None,
        });
    }
    Some(RCircuit { q: c.num_qubits(), gates })
}

/// simulate with the reference simulator: exact if all phases are k*pi/4, float otherwise
pub fn sim_circuit(rc: &RCircuit) -> (Tensor, usize, usize) {
    overflow_reset();
    if let Some(r) = qzv_ref::circuit::sim::<ZwS>(rc) {
        if !overflow_seen() {
            return (Tensor::Exact(r.tensor.iter().map(|x| x.to_big()).collect()), r.n_in, r.n_out);
        }
        let r = qzv_ref::circuit::sim::<Zw>(rc).unwrap();
        return (Tensor::Exact(r.tensor), r.n_in, r.n_out);
    }
    match qzv_ref::circuit::sim::<Cf>(rc) {
        Some(r) => (Tensor::Float(r.tensor, (rc.q as f64).exp2()), r.n_in, r.n_out),
        None => (Tensor::Bad("unsimulable".into()), 0, 0),
    }
}

pub fn circuit_qasm(c: &Circuit) -> String {
    c.to_qasm()
}
