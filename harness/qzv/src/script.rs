//! E3 — choice-tree search: every announced RNG draw is an environment answer chosen by a script.
//!
//! `ScriptedRng` is handed to code that takes `&mut impl Rng`; `install_source()` feeds code that calls the hooked
//! `rng()`.  Both read the range of the pending draw from `quizx::verif_hooks::choice` and answer from the
//! thread-local script (default answer 0), recording (answer, range).  `explore()` is the stateless DFS of the brief:
//! run with a prefix, then branch on every later point.

use quizx::verif_hooks::choice;
use rand::RngCore;
use std::cell::RefCell;

pub const DRAW_LIMIT_MSG: &str = "QZV_DRAW_LIMIT";

#[derive(Default, Clone, Debug)]
pub struct ScriptState {
    pub answers: Vec<u32>,
    pub pos: usize,
    pub trace: Vec<(u32, u32)>,
    pub max_draws: usize,
    /// draws that were not announced (answered from a fixed deterministic stream)
    pub unannounced: u64,
    pub lcg: u64,
    pub error: Option<String>,
}

thread_local! {
    static SCRIPT: RefCell<ScriptState> = RefCell::new(ScriptState::default());
    static PRUNE: std::cell::Cell<Option<PruneFn>> = const { std::cell::Cell::new(None) };
}

/// optional horizon in terms of the draws seen so far: (trace, range of the pending draw, is it a Bernoulli draw) ->
/// cut this branch (counts as DrawLimit: pruned, not a verdict). Used to cut retry rounds that offer the same choices again.
pub type PruneFn = fn(&[(u32, u32)], u32, bool) -> bool;
pub fn set_prune(f: Option<PruneFn>) {
    PRUNE.with(|p| p.set(f));
}

pub fn begin(answers: &[u32], max_draws: usize) {
    // announcements left behind by an unscripted run on this thread (nobody consumed them) must not leak into this one
    let _ = choice::take();
    let _ = choice::take_f32_bounds();
    SCRIPT.with(|s| *s.borrow_mut() = ScriptState { answers: answers.to_vec(), pos: 0, trace: vec![], max_draws, unannounced: 0, lcg: 0x9E3779B97F4A7C15, error: None });
}

pub fn end() -> ScriptState {
    SCRIPT.with(|s| s.borrow().clone())
}

/// value that makes rand 0.9's `random_range(0..n)` return exactly k (calibrated at start-up), or the Bernoulli value
fn craft(k: u64, n: u64, is_bool: bool, wide: bool) -> u64 {
    if is_bool {
        // random_bool(p) is `u64 < p_int`: 0 gives true, MAX gives false; answer 0 = true
        return if k == 0 { 0 } else { u64::MAX };
    }
    if wide {
        (((2 * k + 1) as u128 * (1u128 << 63)) / n as u128) as u64
    } else {
        (((2 * k + 1) as u128 * (1u128 << 31)) / n as u128) as u64
    }
}

/// a uniform f32 in [0,1) that the code compares with running sums: the answer picks the bucket; the crafted word
/// makes rand 0.9's `random::<f32>()` ((word >> 8) * 2^-24) land inside it
fn draw_bucket(bounds: Vec<f32>) -> u64 {
    // representatives: for every bucket [lo, hi) that contains a value v * 2^-24, the smallest such value (which is the
    // threshold itself when that is representable: the boundary case of the comparison) and one from the middle
    let mut buckets: Vec<u32> = vec![];
    let mut lo = 0f32;
    let scale = 16777216.0f32;
    for hi in bounds.into_iter().chain(std::iter::once(1.0f32)) {
        let hi = hi.min(1.0);
        if hi > lo {
            let inside = |v: f32| v >= 0.0 && v < scale && v / scale >= lo && v / scale < hi;
            let first = (lo * scale).ceil();
            let mid = (((lo + hi) / 2.0) * scale).floor();
            if inside(first) {
                buckets.push(first as u32);
            }
            if inside(mid) && mid != first {
                buckets.push(mid as u32);
            }
            lo = hi;
        }
    }
    SCRIPT.with(|s| {
        let mut s = s.borrow_mut();
        let n = buckets.len() as u64;
        if s.trace.len() >= s.max_draws {
            drop(s);
            panic!("{}", DRAW_LIMIT_MSG);
        }
        let k = s.answers.get(s.pos).copied().unwrap_or(0) as u64;
        s.pos += 1;
        if n == 0 || k >= n {
            s.error = Some(format!("scripted bucket {} out of range {} at draw {}", k, n, s.pos - 1));
            drop(s);
            panic!("scripted choice out of range (replay divergence)");
        }
        s.trace.push((k as u32, n as u32));
        (buckets[k as usize] as u64) << 8
    })
}

fn draw(wide: bool) -> u64 {
    if let Some(bounds) = choice::take_f32_bounds() {
        return draw_bucket(bounds);
    }
    let pend = choice::take();
    SCRIPT.with(|s| {
        let mut s = s.borrow_mut();
        match pend {
            None => {
                // unannounced draw (e.g. a shuffle): deterministic stream, not a choice point
                s.unannounced += 1;
                s.lcg = s.lcg.wrapping_mul(6364136223846793005).wrapping_add(1442695040888963407);
                let x = s.lcg ^ (s.lcg >> 29);
                if wide {
                    x
                } else {
                    x >> 32
                }
            }
            Some((n, is_bool)) => {
                if s.trace.len() >= s.max_draws || PRUNE.with(|p| p.get()).is_some_and(|f| f(&s.trace, n as u32, is_bool)) {
                    drop(s);
                    panic!("{}", DRAW_LIMIT_MSG);
                }
                let k = s.answers.get(s.pos).copied().unwrap_or(0) as u64;
                s.pos += 1;
                if n == 0 || k >= n {
                    s.error = Some(format!("scripted answer {} out of range {} at draw {}", k, n, s.pos - 1));
                    drop(s);
                    panic!("scripted choice out of range (replay divergence)");
                }
                s.trace.push((k as u32, n as u32));
                craft(k, n, is_bool, wide)
            }
        }
    })
}

pub struct ScriptedRng;

impl RngCore for ScriptedRng {
    fn next_u32(&mut self) -> u32 {
        draw(false) as u32
    }
    fn next_u64(&mut self) -> u64 {
        draw(true)
    }
    fn fill_bytes(&mut self, dst: &mut [u8]) {
        for chunk in dst.chunks_mut(8) {
            let w = self.next_u64().to_le_bytes();
            chunk.copy_from_slice(&w[..chunk.len()]);
        }
    }
}

/// route the hooked `rng()` of quizx (decompose.rs) to the script on this thread
pub fn install_source() {
    quizx::verif_hooks::hookrng::install_source(Some(Box::new(draw)));
}
pub fn remove_source() {
    quizx::verif_hooks::hookrng::install_source(None);
}

#[derive(Debug)]
pub enum RunEnd<T> {
    Done(T),
    /// more announced draws than the horizon allows (retry loops): branch pruned, not a verdict
    DrawLimit,
    Panic(String),
}

pub struct Explored<T> {
    pub script: Vec<u32>,
    pub trace: Vec<(u32, u32)>,
    pub end: RunEnd<T>,
}

/// Stateless DFS over all answer sequences with at most `max_deviations` non-default answers
/// (usize::MAX = unbounded).  `f` is re-executed from scratch for every script.
pub fn explore<T>(max_draws: usize, max_deviations: usize, run_cap: usize, mut f: impl FnMut() -> T, mut visit: impl FnMut(Explored<T>)) -> (u64, bool) {
    let mut stack: Vec<Vec<u32>> = vec![vec![]];
    let mut runs = 0u64;
    let mut complete = true;
    while let Some(prefix) = stack.pop() {
        if runs as usize >= run_cap {
            complete = false;
            break;
        }
        runs += 1;
        begin(&prefix, max_draws);
        let r = crate::report::guarded(&mut f);
        let st = end();
        if let Some(e) = &st.error {
            panic!("MACHINERY: {}", e);
        }
        // a divergence while replaying the prefix is a hard error
        for (i, &a) in prefix.iter().enumerate() {
            if i < st.trace.len() && st.trace[i].0 != a {
                panic!("MACHINERY: replay divergence at draw {}", i);
            }
        }
        let end = match r {
            Ok(v) => RunEnd::Done(v),
            Err(p) if p.contains(DRAW_LIMIT_MSG) => RunEnd::DrawLimit,
            Err(p) => RunEnd::Panic(p),
        };
        let dev = prefix.iter().filter(|&&c| c != 0).count();
        if dev < max_deviations {
            for i in (prefix.len()..st.trace.len()).rev() {
                for alt in (1..st.trace[i].1).rev() {
                    let mut p: Vec<u32> = st.trace[..i].iter().map(|t| t.0).collect();
                    p.push(alt);
                    stack.push(p);
                }
            }
        }
        visit(Explored { script: prefix, trace: st.trace, end });
    }
    (runs, complete)
}

/// "prove you own the nondeterminism": the crafted words give exactly the scripted answers
pub fn calibrate() -> Result<u64, String> {
    use rand::Rng;
    let mut checked = 0;
    for n in 1..=64usize {
        for k in 0..n {
            begin(&[k as u32], 4);
            choice::announce(n);
            let got = ScriptedRng.random_range(0..n);
            if got != k {
                return Err(format!("random_range(0..{}) scripted {} gave {}", n, k, got));
            }
            checked += 1;
        }
    }
    // f32 buckets: the answers walk through the buckets in order, every reachable bucket is hit, and the first answer
    // of a bucket whose lower threshold is representable is that threshold itself
    for widths in [[0.2f32, 0.2, 0.2, 0.2, 0.2], [1.0, 0.0, 0.0, 0.0, 0.0], [0.1, 0.15, 0.2, 0.25, 0.3], [0.1, 0.1, 0.1, 0.1, 0.1], [0.0, 0.5, 0.0, 0.0, 0.5], [0.25, 0.0, 0.25, 0.25, 0.25]] {
        let mut bounds = vec![];
        let mut p0 = 0f32;
        for w in widths {
            p0 += w;
            bounds.push(p0);
        }
        let mut reachable: Vec<usize> = vec![];
        let mut lo = 0f32;
        for (i, &hi) in bounds.iter().chain(std::iter::once(&1.0f32)).enumerate() {
            if hi.min(1.0) > lo {
                reachable.push(i);
                lo = hi.min(1.0);
            }
        }
        begin(&[], 4);
        choice::announce_unit_f32(&widths);
        let _: f32 = ScriptedRng.random();
        let n = end().trace[0].1;
        let mut hit: Vec<usize> = vec![];
        let mut saw_threshold = false;
        for k in 0..n {
            begin(&[k], 4);
            choice::announce_unit_f32(&widths);
            let p: f32 = ScriptedRng.random();
            let got = bounds.iter().position(|&b| p < b).unwrap_or(bounds.len());
            if hit.last().map(|&l| got < l).unwrap_or(false) {
                return Err(format!("f32 answers of {:?} are not ordered by bucket", widths));
            }
            if bounds.contains(&p) {
                saw_threshold = true;
            }
            if hit.last() != Some(&got) {
                hit.push(got);
            }
            checked += 1;
        }
        if hit != reachable {
            return Err(format!("f32 buckets of {:?}: hit {:?}, reachable {:?}", widths, hit, reachable));
        }
        if widths[0] == 0.25 && !saw_threshold {
            return Err("the representable threshold 0.25 was not among the answers".into());
        }
    }
    for n in [10i32, 3, 2] {
        for k in 0..n {
            begin(&[k as u32], 4);
            choice::announce(n as usize);
            let got: i32 = ScriptedRng.random_range(0..n);
            if got != k {
                return Err(format!("random_range(0..{}i32) scripted {} gave {}", n, k, got));
            }
            checked += 1;
        }
    }
    for p in [0.5f64, 0.01, 0.99, 1e-9] {
        for k in 0..2u32 {
            begin(&[k], 4);
            choice::announce_bool();
            let got = ScriptedRng.random_bool(p);
            if got != (k == 0) {
                return Err(format!("random_bool({}) scripted {} gave {}", p, k, got));
            }
            checked += 1;
        }
    }
    // p == 1.0 consumes no draw
    begin(&[1], 4);
    choice::announce_bool();
    if !ScriptedRng.random_bool(1.0) || !end().trace.is_empty() {
        return Err("random_bool(1.0) consumed a draw".into());
    }
    let _ = choice::take();
    Ok(checked)
}
