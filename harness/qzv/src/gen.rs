//! Finite input families: diagrams D(s,b,Phi) and circuits K(q,d,A).  Enumeration order is fixed.

use num::Rational64;
use quizx::circuit::Circuit;
use quizx::gate::*;
use quizx::graph::*;
use quizx::params::Parity;
use serde_json::{json, Value};

#[derive(Clone, Debug, PartialEq, Eq, Hash, PartialOrd, Ord)]
pub struct VSpec {
    /// 0 = boundary, 1 = Z, 2 = X
    pub kind: u8,
    pub num: i16,
    pub den: i16,
    /// bitmask of boolean variables attached to the phase
    pub vars: u8,
}

#[derive(Clone, Debug, PartialEq, Eq, Hash, PartialOrd, Ord)]
pub struct DiagSpec {
    pub verts: Vec<VSpec>,
    pub edges: Vec<(u8, u8, bool)>,
    pub inputs: Vec<u8>,
    pub outputs: Vec<u8>,
    /// number of dummy vertices created first and removed again: the diagram's vertex ids then start at `gap` and the
    /// vector back end holds `gap` freed slots (a diagram after earlier removals); 0 = contiguous ids from 0
    pub gap: u8,
}

pub type Ph = (i16, i16);

pub const PHI8: [Ph; 8] = [(0, 1), (1, 4), (1, 2), (3, 4), (1, 1), (-3, 4), (-1, 2), (-1, 4)];
pub const PHI6: [Ph; 6] = [(0, 1), (1, 1), (1, 2), (-1, 2), (1, 4), (3, 4)];
pub const PHI4: [Ph; 4] = [(0, 1), (1, 1), (1, 2), (1, 4)];
pub const PHI_TOL: [Ph; 3] = [(1, 3), (1, 8), (5, 7)];

impl DiagSpec {
    pub fn empty() -> DiagSpec {
        DiagSpec { verts: vec![], edges: vec![], inputs: vec![], outputs: vec![], gap: 0 }
    }
    pub fn add(&mut self, kind: u8, ph: Ph) -> u8 {
        self.verts.push(VSpec { kind, num: ph.0, den: ph.1, vars: 0 });
        (self.verts.len() - 1) as u8
    }
    pub fn build<G: GraphLike>(&self) -> G {
        let mut g = G::new();
        let off = self.gap as usize;
        let dummies: Vec<V> = (0..off).map(|_| g.add_vertex(VType::Z)).collect();
        for v in &self.verts {
            let ty = match v.kind {
                0 => VType::B,
                1 => VType::Z,
                _ => VType::X,
            };
            let id = g.add_vertex_with_phase(ty, Rational64::new(v.num as i64, v.den as i64));
            if v.vars != 0 {
                let vs: Vec<u32> = (0..8).filter(|i| (v.vars >> i) & 1 == 1).collect();
                g.set_vars(id, Parity::from(vs));
            }
        }
        for &(s, t, h) in &self.edges {
            g.add_edge_with_type(s as usize + off, t as usize + off, if h { EType::H } else { EType::N });
        }
        g.set_inputs(self.inputs.iter().map(|&x| x as usize + off).collect());
        g.set_outputs(self.outputs.iter().map(|&x| x as usize + off).collect());
        for d in dummies {
            g.remove_vertex(d);
        }
        g
    }
    pub fn to_json(&self) -> Value {
        json!({
            "verts": self.verts.iter().map(|v| json!([v.kind, v.num, v.den, v.vars])).collect::<Vec<_>>(),
            "edges": self.edges.iter().map(|e| json!([e.0, e.1, e.2])).collect::<Vec<_>>(),
            "inputs": self.inputs, "outputs": self.outputs, "gap": self.gap,
            "legend": "verts: [kind 0=B 1=Z 2=X, phase numerator, phase denominator, variable bitmask]; edges: [s, t, hadamard]"
        })
    }
    pub fn from_json(v: &Value) -> Option<DiagSpec> {
        let mut d = DiagSpec::empty();
        for x in v["verts"].as_array()? {
            d.verts.push(VSpec { kind: x[0].as_u64()? as u8, num: x[1].as_i64()? as i16, den: x[2].as_i64()? as i16, vars: x[3].as_u64()? as u8 });
        }
        for x in v["edges"].as_array()? {
            d.edges.push((x[0].as_u64()? as u8, x[1].as_u64()? as u8, x[2].as_bool()?));
        }
        d.inputs = v["inputs"].as_array()?.iter().map(|x| x.as_u64().unwrap() as u8).collect();
        d.outputs = v["outputs"].as_array()?.iter().map(|x| x.as_u64().unwrap() as u8).collect();
        d.gap = v["gap"].as_u64().unwrap_or(0) as u8;
        Some(d)
    }
    pub fn spiders(&self) -> Vec<usize> {
        (0..self.verts.len()).filter(|&i| self.verts[i].kind != 0).collect()
    }
}

/// All structures with exactly `s` labelled spiders (types chosen, phases 0) and exactly `b` boundaries.
/// `bfirst`: boundaries get the smallest ids.  Boundaries attach to any spider or pair up with a later
/// boundary, with a plain or Hadamard edge, and are inputs or outputs.
pub fn structures(s: usize, b: usize, bfirst: bool) -> Vec<DiagSpec> {
    let mut out = vec![];
    let sid = |i: usize| (if bfirst { b + i } else { i }) as u8;
    let bid = |i: usize| (if bfirst { i } else { s + i }) as u8;
    let npairs = s * (s.saturating_sub(1)) / 2;
    let pairs: Vec<(usize, usize)> = (0..s).flat_map(|i| (i + 1..s).map(move |j| (i, j))).collect();
    for types in 0..(1u32 << s) {
        for em in 0..3u32.pow(npairs as u32) {
            let mut base = DiagSpec::empty();
            let total = s + b;
            base.verts = vec![VSpec { kind: 0, num: 0, den: 1, vars: 0 }; total];
            for i in 0..s {
                base.verts[sid(i) as usize].kind = if (types >> i) & 1 == 0 { 1 } else { 2 };
            }
            let mut m = em;
            for &(i, j) in &pairs {
                match m % 3 {
                    1 => base.edges.push((sid(i), sid(j), false)),
                    2 => base.edges.push((sid(i), sid(j), true)),
                    _ => {}
                }
                m /= 3;
            }
            // boundary attachments, recursively
            fn rec(out: &mut Vec<DiagSpec>, cur: &mut DiagSpec, i: usize, b: usize, s: usize, assigned: &mut Vec<bool>, roles: &mut Vec<u8>, sid: &dyn Fn(usize) -> u8, bid: &dyn Fn(usize) -> u8) {
                if i == b {
                    // roles: every boundary input/output
                    for r in 0..(1u32 << b) {
                        let mut d = cur.clone();
                        for k in 0..b {
                            if (r >> k) & 1 == 0 {
                                d.inputs.push(bid(k))
                            } else {
                                d.outputs.push(bid(k))
                            }
                        }
                        out.push(d);
                    }
                    let _ = roles;
                    return;
                }
                if assigned[i] {
                    rec(out, cur, i + 1, b, s, assigned, roles, sid, bid);
                    return;
                }
                assigned[i] = true;
                for j in 0..s {
                    for h in [false, true] {
                        cur.edges.push((bid(i), sid(j), h));
                        rec(out, cur, i + 1, b, s, assigned, roles, sid, bid);
                        cur.edges.pop();
                    }
                }
                for j in i + 1..b {
                    if !assigned[j] {
                        assigned[j] = true;
                        for h in [false, true] {
                            cur.edges.push((bid(i), bid(j), h));
                            rec(out, cur, i + 1, b, s, assigned, roles, sid, bid);
                            cur.edges.pop();
                        }
                        assigned[j] = false;
                    }
                }
                assigned[i] = false;
            }
            let mut cur = base.clone();
            rec(&mut out, &mut cur, 0, b, s, &mut vec![false; b], &mut vec![], &sid, &bid);
        }
    }
    out
}

/// all structures with at most s spiders and at most b boundaries
pub fn structures_upto(s: usize, b: usize, bfirst: bool) -> Vec<DiagSpec> {
    let mut out = vec![];
    for si in 0..=s {
        for bi in 0..=b {
            out.extend(structures(si, bi, bfirst));
        }
    }
    out
}

/// call f for every assignment of phases from `phis` to the spiders of `base`
pub fn for_phases(base: &DiagSpec, phis: &[Ph], mut f: impl FnMut(&DiagSpec)) {
    let sp = base.spiders();
    let n = phis.len();
    let total = n.pow(sp.len() as u32);
    let mut d = base.clone();
    for mut k in 0..total {
        for &v in &sp {
            let p = phis[k % n];
            d.verts[v].num = p.0;
            d.verts[v].den = p.1;
            k /= n;
        }
        f(&d);
    }
}

/// call f for every assignment of variable masks from `masks` to the spiders of `base`
pub fn for_vars(base: &DiagSpec, masks: &[u8], mut f: impl FnMut(&DiagSpec)) {
    let sp = base.spiders();
    let n = masks.len();
    let total = n.pow(sp.len() as u32);
    let mut d = base.clone();
    for mut k in 0..total {
        for &v in &sp {
            d.verts[v].vars = masks[k % n];
            k /= n;
        }
        f(&d);
    }
}

// ---------------------------------------------------------------------------------------------
// circuits
// ---------------------------------------------------------------------------------------------

pub fn g1(t: GType, q: usize) -> Gate {
    Gate::new(t, vec![q])
}
pub fn gp(t: GType, qs: Vec<usize>, ph: Ph) -> Gate {
    Gate::new_with_phase(t, qs, Rational64::new(ph.0 as i64, ph.1 as i64))
}

/// Clifford+T working alphabet
pub fn alpha_ct(q: usize) -> Vec<Gate> {
    let mut a = vec![];
    for i in 0..q {
        a.push(g1(HAD, i));
        a.push(g1(S, i));
        a.push(g1(T, i));
        a.push(g1(NOT, i));
        a.push(g1(Z, i));
        a.push(gp(ZPhase, vec![i], (3, 4)));
        a.push(gp(XPhase, vec![i], (1, 4)));
    }
    for i in 0..q {
        for j in 0..q {
            if i != j {
                a.push(Gate::new(CNOT, vec![i, j]));
                if i < j {
                    a.push(Gate::new(CZ, vec![i, j]));
                }
            }
        }
    }
    a
}

pub fn alpha_cnot(q: usize) -> Vec<Gate> {
    let mut a = vec![];
    for i in 0..q {
        for j in 0..q {
            if i != j {
                a.push(Gate::new(CNOT, vec![i, j]));
            }
        }
    }
    a
}

/// every supported unitary gate kind
pub fn alpha_full(q: usize) -> Vec<Gate> {
    let mut a = vec![];
    for i in 0..q {
        for t in [HAD, S, T, Sdg, Tdg, NOT, Z] {
            a.push(g1(t, i));
        }
        a.push(gp(ZPhase, vec![i], (3, 4)));
        a.push(gp(ZPhase, vec![i], (-1, 2)));
        a.push(gp(XPhase, vec![i], (1, 4)));
        a.push(gp(XPhase, vec![i], (1, 1)));
        a.push(gp(ParityPhase, vec![i], (1, 4)));
    }
    for i in 0..q {
        for j in 0..q {
            if i != j {
                a.push(Gate::new(CNOT, vec![i, j]));
                a.push(gp(ParityPhase, vec![i, j], (1, 4)));
                if i < j {
                    a.push(Gate::new(CZ, vec![i, j]));
                    a.push(Gate::new(XCX, vec![i, j]));
                    a.push(Gate::new(SWAP, vec![i, j]));
                }
            }
        }
    }
    if q >= 3 {
        for i in 0..q {
            for j in 0..q {
                for k in 0..q {
                    if i != j && j != k && i != k {
                        if i < j {
                            a.push(Gate::new(TOFF, vec![i, j, k]));
                        }
                        if i < j && j < k {
                            a.push(Gate::new(CCZ, vec![i, j, k]));
                            a.push(gp(ParityPhase, vec![i, j, k], (-1, 4)));
                        }
                    }
                }
            }
        }
    }
    a
}

/// tolerance-track additions
pub fn alpha_tol(q: usize) -> Vec<Gate> {
    let mut a = alpha_ct(q);
    for i in 0..q {
        a.push(gp(ZPhase, vec![i], (1, 3)));
        a.push(gp(XPhase, vec![i], (1, 8)));
    }
    a
}

/// gadget-heavy alphabet: one letter = one parity-phase gadget exp(i k pi/4 Z..Z) on a subset of >= 2 qubits (phases
/// 1/4, and 3/4 on the full set), a Hadamard on each qubit, and CNOTs between neighbouring qubits. Short words over it
/// already give diagrams with several interacting phase gadgets separated by Hadamards (what circuits with <= 4
/// elementary gates never reach).
pub fn alpha_pp(q: usize) -> Vec<Gate> {
    let mut a = vec![];
    for i in 0..q {
        a.push(g1(HAD, i));
    }
    for m in 1u32..(1 << q) {
        if m.count_ones() >= 2 {
            let qs: Vec<usize> = (0..q).filter(|i| (m >> i) & 1 == 1).collect();
            a.push(gp(ParityPhase, qs.clone(), (1, 4)));
            if m == (1 << q) - 1 {
                a.push(gp(ParityPhase, qs, (3, 4)));
            }
        }
    }
    for i in 0..q.saturating_sub(1) {
        a.push(Gate::new(CNOT, vec![i, i + 1]));
        a.push(Gate::new(CNOT, vec![i + 1, i]));
    }
    a.push(g1(T, 0));
    a
}

pub fn circuit_count(alpha: usize, depth: usize) -> u64 {
    (0..=depth).map(|d| (alpha as u64).pow(d as u32)).sum()
}

/// the idx-th circuit in the enumeration of all sequences of length <= depth (shorter first)
pub fn circuit_at(q: usize, alpha: &[Gate], depth: usize, mut idx: u64) -> Circuit {
    let n = alpha.len() as u64;
    let mut len = 0usize;
    loop {
        let c = n.pow(len as u32);
        if idx < c || len == depth {
            break;
        }
        idx -= c;
        len += 1;
    }
    let mut c = Circuit::new(q);
    for _ in 0..len {
        c.push(alpha[(idx % n) as usize].clone());
        idx /= n;
    }
    c
}

pub fn circuit_json(c: &Circuit) -> Value {
    json!({
        "qubits": c.num_qubits(),
        "gates": c.gates.iter().map(|g| {
            let r = g.phase.to_rational();
            json!([g.t.qasm_name(), g.qs, r.numer(), r.denom(), g.vars.iter().collect::<Vec<_>>()])
        }).collect::<Vec<_>>()
    })
}

pub fn circuit_from_json(v: &Value) -> Option<Circuit> {
    let mut c = Circuit::new(v["qubits"].as_u64()? as usize);
    for g in v["gates"].as_array()? {
        let t = GType::from_qasm_name(g[0].as_str()?);
        let qs: Vec<usize> = g[1].as_array()?.iter().map(|x| x.as_u64().unwrap() as usize).collect();
        let vars: Vec<u32> = g[4].as_array().map(|a| a.iter().map(|x| x.as_u64().unwrap() as u32).collect()).unwrap_or_default();
        c.push(Gate::new_with_phase_and_vars(t, qs, Rational64::new(g[2].as_i64()?, g[3].as_i64()?), Parity::from(vars)));
    }
    Some(c)
}
