#![allow(dead_code)]
//! qzv — bounded exhaustive exploration of quizx against reference semantics.
//!   qzv <ID> quick|thorough
//!   qzv <ID> --replay <file>
//!   qzv selftest
mod checks;
mod conv;
mod gen;
mod report;
mod script;

use rayon::prelude::*;
use report::*;

/// parallel sweep over a slice with per-thread statistics
pub fn sweep<T: Sync>(items: &[T], f: impl Fn(&mut Stats, usize, &T) + Sync) -> Stats {
    items
        .par_iter()
        .enumerate()
        .fold(Stats::default, |mut st, (i, it)| {
            f(&mut st, i, it);
            st
        })
        .reduce(Stats::default, Stats::merge)
}

/// parallel sweep over an index range
pub fn sweep_range(n: u64, f: impl Fn(&mut Stats, u64) + Sync) -> Stats {
    (0..n)
        .into_par_iter()
        .fold(Stats::default, |mut st, i| {
            f(&mut st, i);
            st
        })
        .reduce(Stats::default, Stats::merge)
}

/// the same sweep on dedicated OS threads instead of the rayon pool. For cases that keep per-thread state (a scripted
/// sampler, a script) while the subject runs a nested parallel section: a rayon pool thread that waits in such a section
/// picks up another case of the sweep on the same thread, which would clobber that state; a dedicated thread just blocks.
pub fn sweep_range_dedicated(n: u64, f: impl Fn(&mut Stats, u64) + Sync) -> Stats {
    let next = std::sync::atomic::AtomicU64::new(0);
    let out = std::sync::Mutex::new(Vec::new());
    std::thread::scope(|sc| {
        for _ in 0..rayon::current_num_threads().max(1) {
            sc.spawn(|| {
                let mut st = Stats::default();
                loop {
                    let i = next.fetch_add(1, std::sync::atomic::Ordering::SeqCst);
                    if i >= n {
                        break;
                    }
                    f(&mut st, i);
                }
                out.lock().unwrap().push(st);
            });
        }
    });
    out.into_inner().unwrap().into_iter().fold(Stats::default(), Stats::merge)
}

fn main() {
    let args: Vec<String> = std::env::args().collect();
    if args.len() < 2 {
        eprintln!("usage: qzv <ID> quick|thorough | qzv <ID> --replay <file> | qzv selftest");
        std::process::exit(2);
    }
    install_quiet_panic_hook();
    if args[1] == "selftest" {
        match qzv_ref::xlate::oracle_selftest(2, 3).and_then(|a| qzv_ref::xlate::oracle_selftest(3, 2).map(|b| a + b)) {
            Ok(n) => {
                println!("oracle self-test: {} circuits, evaluators and simulator agree", n);
                std::process::exit(0)
            }
            Err(e) => {
                eprintln!("ORACLE DISAGREEMENT: {}", e);
                std::process::exit(2)
            }
        }
    }
    let id = args[1].to_uppercase();
    if args.len() >= 4 && args[2] == "--replay" {
        let txt = std::fs::read_to_string(&args[3]).expect("cannot read replay file");
        let v: serde_json::Value = serde_json::from_str(&txt).expect("replay file is not JSON");
        let code = checks::replay(&id, &v);
        std::process::exit(code);
    }
    let tier = args.get(2).map(|s| s.as_str()).unwrap_or("quick").to_string();
    if tier != "quick" && tier != "thorough" {
        eprintln!("tier must be quick or thorough");
        std::process::exit(2);
    }
    // the oracles must vouch for each other before anything is judged
    if let Err(e) = qzv_ref::xlate::oracle_selftest(2, 2) {
        eprintln!("ORACLE DISAGREEMENT: {}", e);
        std::process::exit(2);
    }
    let mut rep = Report::new(&id, &tier);
    watchdog_start(&id, &tier, std::env::var("QZV_HANG_S").ok().and_then(|x| x.parse().ok()).unwrap_or(if tier == "quick" { 120 } else { 600 }));
    let r = std::panic::catch_unwind(std::panic::AssertUnwindSafe(|| checks::run(&id, &mut rep)));
    match r {
        Ok(true) => {}
        Ok(false) => {
            eprintln!("unknown property id {}", id);
            std::process::exit(2);
        }
        Err(_) => {
            eprintln!("MACHINERY ERROR: harness panicked: {}", last_panic());
            std::process::exit(2);
        }
    }
    std::process::exit(rep.finish());
}
