//! Reference semantics (oracles) for the quizx checks.  Deliberately independent of quizx.
pub mod circuit;
pub mod diagram;
pub mod ring;
pub mod xlate;
