//! Reference circuits and their gate-by-gate matrix semantics (textbook definitions only).

use crate::ring::*;

#[derive(Clone, Debug, PartialEq, Eq, Hash, PartialOrd, Ord)]
pub enum RG {
    /// diag(1, e^{i pi n/d})
    ZPhase(usize, i64, i64),
    /// H diag(1, e^{i pi n/d}) H
    XPhase(usize, i64, i64),
    H(usize),
    X(usize),
    CX(usize, usize),
    CZ(usize, usize),
    /// (H (x) H) CZ (H (x) H)
    XCX(usize, usize),
    Swap(usize, usize),
    CCZ(usize, usize, usize),
    /// controls, controls, target
    Toff(usize, usize, usize),
    /// diag(e^{i pi n/d * parity(bits)})
    PP(Vec<usize>, i64, i64),
    /// |0> on this qubit (must be the qubit's first operation): the wire is no input
    Init(usize),
    /// <0| on this qubit (must be the qubit's last operation): the wire is no output
    Post(usize),
    /// <b| on this qubit, last operation, wire is no output
    Meas(usize, u8),
    /// |0><b| on this qubit, wire stays
    MeasReset(usize, u8),
}

impl RG {
    pub fn qubits(&self) -> Vec<usize> {
        use RG::*;
        match self {
            ZPhase(q, _, _) | XPhase(q, _, _) | H(q) | X(q) | Init(q) | Post(q) | Meas(q, _) | MeasReset(q, _) => vec![*q],
            CX(a, b) | CZ(a, b) | XCX(a, b) | Swap(a, b) => vec![*a, *b],
            CCZ(a, b, c) | Toff(a, b, c) => vec![*a, *b, *c],
            PP(qs, _, _) => qs.clone(),
        }
    }
}

#[derive(Clone, Debug, PartialEq, Eq, Hash)]
pub struct RCircuit {
    pub q: usize,
    pub gates: Vec<RG>,
}

pub struct SimResult<R: Ring> {
    pub n_in: usize,
    pub n_out: usize,
    /// T[in * 2^n_out + out], first wire most significant
    pub tensor: Vec<R>,
}

fn had<R: Ring>(v: &mut [R], q: usize, qb: usize) {
    let mask = 1usize << (q - 1 - qb);
    let h = R::sqrt2_pow(-1);
    for r in 0..v.len() {
        if r & mask == 0 {
            let a = v[r].clone();
            let b = v[r | mask].clone();
            v[r] = a.add(&b).mul(&h);
            v[r | mask] = a.sub(&b).mul(&h);
        }
    }
}
fn phase_if<R: Ring>(v: &mut [R], pred: &dyn Fn(usize) -> bool, ph: &R) {
    for r in 0..v.len() {
        if pred(r) && !v[r].is_zero() {
            v[r] = v[r].mul(ph);
        }
    }
}
fn permute<R: Ring>(v: &mut Vec<R>, f: &dyn Fn(usize) -> usize) {
    let old = v.clone();
    for r in 0..old.len() {
        v[f(r)] = old[r].clone();
    }
}

/// apply the unitary / projector part of the circuit to one vector over all q qubits
pub fn apply<R: Ring>(c: &RCircuit, v: &mut Vec<R>) -> Option<()> {
    let q = c.q;
    let bit = move |r: usize, qb: usize| (r >> (q - 1 - qb)) & 1;
    let m = move |qb: usize| 1usize << (q - 1 - qb);
    for g in &c.gates {
        if g.qubits().iter().any(|&x| x >= q) {
            return None;
        }
        match g {
            RG::ZPhase(a, n, d) => {
                let a = *a;
                phase_if(v, &|r| bit(r, a) == 1, &R::phase(*n, *d)?)
            }
            RG::XPhase(a, n, d) => {
                let a = *a;
                had(v, q, a);
                phase_if(v, &|r| bit(r, a) == 1, &R::phase(*n, *d)?);
                had(v, q, a);
            }
            RG::H(a) => had(v, q, *a),
            RG::X(a) => {
                let a = *a;
                permute(v, &|r| r ^ m(a))
            }
            RG::CX(a, b) => {
                let (a, b) = (*a, *b);
                permute(v, &|r| if bit(r, a) == 1 { r ^ m(b) } else { r })
            }
            RG::CZ(a, b) => {
                let (a, b) = (*a, *b);
                phase_if(v, &|r| bit(r, a) == 1 && bit(r, b) == 1, &R::from_int(-1))
            }
            RG::XCX(a, b) => {
                let (a, b) = (*a, *b);
                had(v, q, a);
                had(v, q, b);
                phase_if(v, &|r| bit(r, a) == 1 && bit(r, b) == 1, &R::from_int(-1));
                had(v, q, a);
                had(v, q, b);
            }
            RG::Swap(a, b) => {
                let (a, b) = (*a, *b);
                permute(v, &|r| if bit(r, a) != bit(r, b) { r ^ m(a) ^ m(b) } else { r })
            }
            RG::CCZ(a, b, c3) => {
                let (a, b, c3) = (*a, *b, *c3);
                phase_if(v, &|r| bit(r, a) == 1 && bit(r, b) == 1 && bit(r, c3) == 1, &R::from_int(-1))
            }
            RG::Toff(a, b, t) => {
                let (a, b, t) = (*a, *b, *t);
                permute(v, &|r| if bit(r, a) == 1 && bit(r, b) == 1 { r ^ m(t) } else { r })
            }
            RG::PP(qs, n, d) => {
                let qs = qs.clone();
                phase_if(v, &|r| qs.iter().map(|&x| bit(r, x)).sum::<usize>() % 2 == 1, &R::phase(*n, *d)?)
            }
            RG::Init(_) | RG::Post(_) | RG::Meas(_, _) => {} // handled as index restrictions
            RG::MeasReset(a, b) => {
                let (a, b) = (*a, *b as usize);
                let old = v.clone();
                for r in 0..old.len() {
                    v[r] = if bit(r, a) == 0 { old[if b == 1 { r | m(a) } else { r }].clone() } else { R::zero() };
                }
            }
        }
    }
    Some(())
}

/// Linear map of the circuit.  Returns None if a phase is not representable in R, or if the
/// Init / Post / Meas placement contract is violated (Init first, Post / Meas last on their qubit).
pub fn sim<R: Ring>(c: &RCircuit) -> Option<SimResult<R>> {
    let q = c.q;
    let mut init = vec![false; q];
    let mut post: Vec<Option<u8>> = vec![None; q];
    let mut touched = vec![false; q];
    for g in &c.gates {
        for x in g.qubits() {
            if x >= q || post[x].is_some() {
                return None;
            }
        }
        match g {
            RG::Init(a) => {
                if touched[*a] {
                    return None;
                }
                init[*a] = true;
            }
            RG::Post(a) => post[*a] = Some(0),
            RG::Meas(a, b) => post[*a] = Some(*b),
            _ => {}
        }
        for x in g.qubits() {
            touched[x] = true;
        }
    }
    let ins: Vec<usize> = (0..q).filter(|&x| !init[x]).collect();
    let outs: Vec<usize> = (0..q).filter(|&x| post[x].is_none()).collect();
    let (ni, no) = (ins.len(), outs.len());
    let mut tensor = vec![R::zero(); 1 << (ni + no)];
    for i in 0..(1usize << ni) {
        // full input index: ancilla bits 0
        let mut full = 0usize;
        for (k, &x) in ins.iter().enumerate() {
            if (i >> (ni - 1 - k)) & 1 == 1 {
                full |= 1 << (q - 1 - x);
            }
        }
        let mut v = vec![R::zero(); 1 << q];
        v[full] = R::one();
        apply(c, &mut v)?;
        for o in 0..(1usize << no) {
            let mut fo = 0usize;
            for (k, &x) in outs.iter().enumerate() {
                if (o >> (no - 1 - k)) & 1 == 1 {
                    fo |= 1 << (q - 1 - x);
                }
            }
            for x in 0..q {
                if post[x] == Some(1) {
                    fo |= 1 << (q - 1 - x);
                }
            }
            tensor[(i << no) | o] = v[fo].clone();
        }
    }
    Some(SimResult { n_in: ni, n_out: no, tensor })
}

/// state C|0...0> of a unitary circuit (no Init/Post/Meas)
pub fn state<R: Ring>(c: &RCircuit) -> Option<Vec<R>> {
    let mut v = vec![R::zero(); 1 << c.q];
    v[0] = R::one();
    apply(c, &mut v)?;
    Some(v)
}

#[cfg(test)]
mod tests {
    use super::*;
    #[test]
    fn toffoli_from_ccz() {
        let a = RCircuit { q: 3, gates: vec![RG::H(2), RG::CCZ(0, 1, 2), RG::H(2)] };
        let b = RCircuit { q: 3, gates: vec![RG::Toff(0, 1, 2)] };
        assert!(tensor_eq(&sim::<Zw>(&a).unwrap().tensor, &sim::<Zw>(&b).unwrap().tensor, 0.0));
        let a = RCircuit { q: 2, gates: vec![RG::H(1), RG::CZ(0, 1), RG::H(1)] };
        let b = RCircuit { q: 2, gates: vec![RG::CX(0, 1)] };
        assert!(tensor_eq(&sim::<Zw>(&a).unwrap().tensor, &sim::<Zw>(&b).unwrap().tensor, 0.0));
        let a = RCircuit { q: 2, gates: vec![RG::CX(0, 1), RG::CX(1, 0), RG::CX(0, 1)] };
        let b = RCircuit { q: 2, gates: vec![RG::Swap(0, 1)] };
        assert!(tensor_eq(&sim::<Zw>(&a).unwrap().tensor, &sim::<Zw>(&b).unwrap().tensor, 0.0));
        // xcx = cnot conjugated by H on the control
        let a = RCircuit { q: 2, gates: vec![RG::H(0), RG::CX(0, 1), RG::H(0)] };
        let b = RCircuit { q: 2, gates: vec![RG::XCX(0, 1)] };
        assert!(tensor_eq(&sim::<Zw>(&a).unwrap().tensor, &sim::<Zw>(&b).unwrap().tensor, 0.0));
    }
    #[test]
    fn ancilla_and_postselect() {
        // |0> then X then <0| on a single qubit is the number 0; with no X it is 1
        let a = RCircuit { q: 1, gates: vec![RG::Init(0), RG::X(0), RG::Post(0)] };
        let r = sim::<Zw>(&a).unwrap();
        assert_eq!((r.n_in, r.n_out, r.tensor.len()), (0, 0, 1));
        assert!(r.tensor[0].is_zero());
        let a = RCircuit { q: 1, gates: vec![RG::Init(0), RG::X(0), RG::Meas(0, 1)] };
        assert!(sim::<Zw>(&a).unwrap().tensor[0].eqv(&Zw::one()));
        let a = RCircuit { q: 1, gates: vec![RG::X(0), RG::MeasReset(0, 1)] };
        let r = sim::<Zw>(&a).unwrap();
        // input 0 -> X -> |1> -> <1| ok -> |0>
        assert!(r.tensor[0].eqv(&Zw::one()) && r.tensor[1].is_zero() && r.tensor[2].is_zero() && r.tensor[3].is_zero());
    }
}
