//! The harness's own (textbook) circuit -> diagram translation, used only to let the two oracles
//! (state-sum evaluator and gate-matrix simulator) vouch for each other without involving quizx.

use crate::circuit::*;
use crate::diagram::*;
use crate::ring::*;

pub fn to_diagram<R: Ring>(c: &RCircuit) -> Option<RDiagram<R>> {
    let mut d = RDiagram::new(R::one());
    let mut next = 0usize;
    let mut fresh = |d: &mut RDiagram<R>, k: Kind, n: i64, den: i64| {
        d.verts.insert(next, (k, n, den));
        next += 1;
        next - 1
    };
    // per qubit: last vertex and whether the pending edge to the next vertex is a Hadamard edge
    let mut last: Vec<(usize, bool)> = vec![];
    for _ in 0..c.q {
        let b = fresh(&mut d, Kind::B, 0, 1);
        d.inputs.push(b);
        last.push((b, false));
    }
    let mut spider = |d: &mut RDiagram<R>, last: &mut Vec<(usize, bool)>, q: usize, k: Kind, n: i64, den: i64| -> usize {
        let v = fresh(d, k, n, den);
        d.edges.push((last[q].0, v, last[q].1));
        last[q] = (v, false);
        v
    };
    for g in &c.gates {
        match g {
            RG::ZPhase(q, n, dd) => {
                spider(&mut d, &mut last, *q, Kind::Z, *n, *dd);
            }
            RG::XPhase(q, n, dd) => {
                spider(&mut d, &mut last, *q, Kind::X, *n, *dd);
            }
            RG::X(q) => {
                spider(&mut d, &mut last, *q, Kind::X, 1, 1);
            }
            RG::H(q) => {
                // a phase-free spider followed by a Hadamard edge
                spider(&mut d, &mut last, *q, Kind::Z, 0, 1);
                last[*q].1 = true;
            }
            RG::CX(a, b) => {
                let x = spider(&mut d, &mut last, *a, Kind::Z, 0, 1);
                let y = spider(&mut d, &mut last, *b, Kind::X, 0, 1);
                d.edges.push((x, y, false));
                d.scalar = d.scalar.mul(&R::sqrt2_pow(1));
            }
            RG::CZ(a, b) => {
                let x = spider(&mut d, &mut last, *a, Kind::Z, 0, 1);
                let y = spider(&mut d, &mut last, *b, Kind::Z, 0, 1);
                d.edges.push((x, y, true));
                d.scalar = d.scalar.mul(&R::sqrt2_pow(1));
            }
            _ => return None,
        }
    }
    for q in 0..c.q {
        let b = fresh(&mut d, Kind::B, 0, 1);
        d.edges.push((last[q].0, b, last[q].1));
        d.outputs.push(b);
    }
    Some(d)
}

/// all circuits of exactly `depth` gates over the small alphabet on q qubits (used by the oracle self-test)
pub fn small_alphabet(q: usize) -> Vec<RG> {
    let mut a = vec![];
    for i in 0..q {
        a.push(RG::H(i));
        a.push(RG::ZPhase(i, 1, 4));
        a.push(RG::XPhase(i, 3, 4));
        a.push(RG::X(i));
        for j in 0..q {
            if i != j {
                a.push(RG::CX(i, j));
                if i < j {
                    a.push(RG::CZ(i, j));
                }
            }
        }
    }
    a
}

/// Cross-validation of the oracles: for every circuit of depth <= `depth` over the small alphabet,
/// naive state sum == variable elimination == gate-matrix simulation.  Returns the number of circuits checked.
pub fn oracle_selftest(q: usize, depth: usize) -> Result<u64, String> {
    let alpha = small_alphabet(q);
    let mut count = 0u64;
    let mut stack: Vec<Vec<usize>> = vec![vec![]];
    while let Some(ix) = stack.pop() {
        let c = RCircuit { q, gates: ix.iter().map(|&i| alpha[i].clone()).collect() };
        let d = to_diagram::<Zw>(&c).ok_or("untranslatable")?;
        let s = sim::<Zw>(&c).ok_or("unsimulable")?;
        let e = d.eval_elim().map_err(|e| format!("{:?}", e))?;
        if !tensor_eq(&e, &s.tensor, 0.0) {
            return Err(format!("elimination evaluator and simulator disagree on {:?}", c));
        }
        if d.num_spiders() + 2 * q <= 16 {
            let n = d.eval_naive().map_err(|e| format!("{:?}", e))?;
            if !tensor_eq(&e, &n, 0.0) {
                return Err(format!("naive and elimination evaluators disagree on {:?}", c));
            }
        }
        // fast ring must agree with the BigInt ring
        overflow_reset();
        let ds = to_diagram::<ZwS>(&c).unwrap();
        let es = ds.eval().map_err(|e| format!("{:?}", e))?;
        if !overflow_seen() && !es.iter().zip(&e).all(|(a, b)| a.to_big().eqv(b)) {
            return Err(format!("fast ring and BigInt ring disagree on {:?}", c));
        }
        count += 1;
        if ix.len() < depth {
            for i in 0..alpha.len() {
                let mut n = ix.clone();
                n.push(i);
                stack.push(n);
            }
        }
    }
    Ok(count)
}

#[cfg(test)]
mod tests {
    #[test]
    fn oracles_agree() {
        assert!(super::oracle_selftest(2, 3).unwrap() > 1000);
        assert!(super::oracle_selftest(3, 2).unwrap() > 300);
    }
}
