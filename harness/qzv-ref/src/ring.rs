//! Exact arithmetic in Z[omega][1/sqrt2] (omega = e^{i pi/4}) and the floating tolerance ring.
//!
//! A value is (c0 + c1 w + c2 w^2 + c3 w^3) * sqrt2^k with w^4 = -1 and sqrt2 = w - w^3.
//! Two implementations share one trait: `Zw` (BigInt, always right) and `ZwS` (i128 with an
//! overflow flag, fast).  Callers run the fast one and fall back when the flag was raised.

use num::bigint::BigInt;
use num::complex::Complex64;
use num::{One as _, Signed, Zero as _};
use std::cell::Cell;
use std::fmt::Debug;

pub trait Ring: Clone + Debug + Send + Sync {
    const EXACT: bool;
    fn zero() -> Self;
    fn one() -> Self;
    fn from_int(i: i64) -> Self;
    fn add(&self, o: &Self) -> Self;
    fn mul(&self, o: &Self) -> Self;
    fn neg(&self) -> Self;
    fn conj(&self) -> Self;
    fn is_zero(&self) -> bool;
    fn sqrt2_pow(k: i32) -> Self;
    /// e^{i pi num/den}; None when the ring cannot represent it
    fn phase(num: i64, den: i64) -> Option<Self>;
    fn to_c64(&self) -> Complex64;
    /// exact equality for exact rings; for the float ring |a-b| <= tol
    fn close(&self, o: &Self, tol: f64) -> bool;
    fn sub(&self, o: &Self) -> Self {
        self.add(&o.neg())
    }
}

// ---------------------------------------------------------------------------------------------
// BigInt version
// ---------------------------------------------------------------------------------------------

#[derive(Clone, Debug)]
pub struct Zw {
    pub c: [BigInt; 4],
    pub k: i32,
}

impl Zw {
    pub fn new(c: [i64; 4], k: i32) -> Zw {
        Zw { c: [c[0].into(), c[1].into(), c[2].into(), c[3].into()], k }
    }
    pub fn omega_pow(p: i64) -> Zw {
        let p = p.rem_euclid(8) as usize;
        let mut c = [0i64; 4];
        if p < 4 {
            c[p] = 1
        } else {
            c[p - 4] = -1
        }
        Zw::new(c, 0)
    }
    fn coeff_is_zero(&self) -> bool {
        self.c.iter().all(|x| x.is_zero())
    }
    /// multiply the coefficient part by sqrt2 and lower k by one (value unchanged)
    fn lower(&self) -> Zw {
        // (c0 + c1 w + c2 w2 + c3 w3)(w - w3) = (c1+c3) + (c0+c2) w + (c1-c3)... computed explicitly
        let [a, b, c, d] = &self.c;
        // times w:  [-d, a, b, c];  times w3: [-b, -c, -d, a]
        let r = [
            -d + b,       // -d - (-b)
            a + c,        // a - (-c)
            b + d,        // b - (-d)
            c - a,        // c - a
        ];
        Zw { c: r, k: self.k - 1 }
    }
    fn to_k(&self, k: i32) -> Zw {
        let mut r = self.clone();
        while r.k > k {
            r = r.lower();
        }
        r
    }
    /// canonical form: k as large as possible (coefficients divided by sqrt2 while divisible); zero has k = 0
    pub fn canon(&self) -> Zw {
        if self.coeff_is_zero() {
            return Zw::new([0; 4], 0);
        }
        let mut r = self.clone();
        loop {
            // r divisible by sqrt2 iff r*sqrt2 has all even coefficients; then r/sqrt2 = (r*sqrt2)/2
            let l = r.lower();
            if l.c.iter().all(|x| (x % BigInt::from(2)).is_zero()) {
                let two = BigInt::from(2);
                r = Zw { c: [&l.c[0] / &two, &l.c[1] / &two, &l.c[2] / &two, &l.c[3] / &two], k: r.k + 1 };
            } else {
                return r;
            }
        }
    }
    pub fn eqv(&self, o: &Zw) -> bool {
        let (za, zb) = (self.coeff_is_zero(), o.coeff_is_zero());
        if za || zb {
            return za && zb;
        }
        let k = self.k.min(o.k);
        self.to_k(k).c == o.to_k(k).c
    }
    pub fn key(&self) -> String {
        let c = self.canon();
        format!("{},{},{},{}@{}", c.c[0], c.c[1], c.c[2], c.c[3], c.k)
    }
    pub fn max_bits(&self) -> u64 {
        self.c.iter().map(|x| x.bits()).max().unwrap_or(0)
    }
    /// real part and imaginary part as f64 (via canonical form, scaled carefully)
    fn to_c(&self) -> Complex64 {
        if self.coeff_is_zero() {
            return Complex64::new(0.0, 0.0);
        }
        let c = self.canon();
        // scale coefficients to f64 with a shared binary exponent to avoid overflow
        let bits = c.max_bits() as i64;
        let shift = (bits - 900).max(0) as usize;
        let f: Vec<f64> = c.c.iter().map(|x| bigint_to_f64(&(x >> shift))).collect();
        let s = std::f64::consts::FRAC_1_SQRT_2;
        let re = f[0] + (f[1] - f[3]) * s;
        let im = f[2] + (f[1] + f[3]) * s;
        // value = (re + i im) * 2^shift * sqrt2^k
        // applied in two steps: a single factor 2^e2 is subnormal (imprecise) or zero below 2^-1022 although the product is normal
        let e2 = shift as f64 + (c.k as f64) / 2.0;
        let h = (e2 / 2.0).floor();
        let (m1, m2) = (h.exp2(), (e2 - h).exp2());
        Complex64::new(re * m1 * m2, im * m1 * m2)
    }
    /// |value|^2 as an exact element (value * conj)
    pub fn norm_sqr(&self) -> Zw {
        self.mul(&self.conj())
    }
}

pub fn bigint_to_f64(x: &BigInt) -> f64 {
    use num::ToPrimitive;
    x.to_f64().unwrap_or(if x.is_negative() { f64::NEG_INFINITY } else { f64::INFINITY })
}

impl Ring for Zw {
    const EXACT: bool = true;
    fn zero() -> Zw {
        Zw::new([0; 4], 0)
    }
    fn one() -> Zw {
        Zw::new([1, 0, 0, 0], 0)
    }
    fn from_int(i: i64) -> Zw {
        Zw::new([i, 0, 0, 0], 0)
    }
    fn add(&self, o: &Zw) -> Zw {
        if self.coeff_is_zero() {
            return o.clone();
        }
        if o.coeff_is_zero() {
            return self.clone();
        }
        let k = self.k.min(o.k);
        let a = self.to_k(k);
        let b = o.to_k(k);
        Zw { c: [&a.c[0] + &b.c[0], &a.c[1] + &b.c[1], &a.c[2] + &b.c[2], &a.c[3] + &b.c[3]], k }
    }
    fn mul(&self, o: &Zw) -> Zw {
        let mut c = [BigInt::zero(), BigInt::zero(), BigInt::zero(), BigInt::zero()];
        for i in 0..4 {
            if self.c[i].is_zero() {
                continue;
            }
            for j in 0..4 {
                if o.c[j].is_zero() {
                    continue;
                }
                let v = &self.c[i] * &o.c[j];
                let p = i + j;
                if p < 4 {
                    c[p] += v
                } else {
                    c[p - 4] -= v
                }
            }
        }
        Zw { c, k: self.k + o.k }
    }
    fn neg(&self) -> Zw {
        Zw { c: [-&self.c[0], -&self.c[1], -&self.c[2], -&self.c[3]], k: self.k }
    }
    fn conj(&self) -> Zw {
        Zw { c: [self.c[0].clone(), -&self.c[3], -&self.c[2], -&self.c[1]], k: self.k }
    }
    fn is_zero(&self) -> bool {
        self.coeff_is_zero()
    }
    fn sqrt2_pow(k: i32) -> Zw {
        Zw { c: [BigInt::one(), BigInt::zero(), BigInt::zero(), BigInt::zero()], k }
    }
    fn phase(num: i64, den: i64) -> Option<Zw> {
        if den == 0 || 4 % den != 0 {
            return None;
        }
        Some(Zw::omega_pow(num * (4 / den)))
    }
    fn to_c64(&self) -> Complex64 {
        self.to_c()
    }
    fn close(&self, o: &Zw, _tol: f64) -> bool {
        self.eqv(o)
    }
}

// ---------------------------------------------------------------------------------------------
// i128 version with overflow flag
// ---------------------------------------------------------------------------------------------

thread_local! {
    static OVERFLOW: Cell<bool> = const { Cell::new(false) };
}
pub fn overflow_reset() {
    OVERFLOW.with(|o| o.set(false))
}
pub fn overflow_seen() -> bool {
    OVERFLOW.with(|o| o.get())
}
#[inline]
fn ovf() -> i128 {
    OVERFLOW.with(|o| o.set(true));
    0
}
#[inline]
fn cadd(a: i128, b: i128) -> i128 {
    a.checked_add(b).unwrap_or_else(ovf)
}
#[inline]
fn csub(a: i128, b: i128) -> i128 {
    a.checked_sub(b).unwrap_or_else(ovf)
}
#[inline]
fn cmul(a: i128, b: i128) -> i128 {
    a.checked_mul(b).unwrap_or_else(ovf)
}

#[derive(Clone, Copy, Debug)]
pub struct ZwS {
    pub c: [i128; 4],
    pub k: i32,
}

impl ZwS {
    pub fn omega_pow(p: i64) -> ZwS {
        let p = p.rem_euclid(8) as usize;
        let mut c = [0i128; 4];
        if p < 4 {
            c[p] = 1
        } else {
            c[p - 4] = -1
        }
        ZwS { c, k: 0 }
    }
    #[inline]
    fn cz(&self) -> bool {
        self.c == [0; 4]
    }
    #[inline]
    fn lower(&self) -> ZwS {
        let [a, b, c, d] = self.c;
        ZwS { c: [csub(b, d), cadd(a, c), cadd(b, d), csub(c, a)], k: self.k - 1 }
    }
    fn to_k(&self, k: i32) -> ZwS {
        let mut r = *self;
        while r.k > k {
            r = r.lower();
        }
        r
    }
    pub fn eqv(&self, o: &ZwS) -> bool {
        let (za, zb) = (self.cz(), o.cz());
        if za || zb {
            return za && zb;
        }
        let k = self.k.min(o.k);
        self.to_k(k).c == o.to_k(k).c
    }
    pub fn to_big(&self) -> Zw {
        Zw { c: [self.c[0].into(), self.c[1].into(), self.c[2].into(), self.c[3].into()], k: self.k }
    }
    pub fn canon(&self) -> ZwS {
        if self.cz() {
            return ZwS { c: [0; 4], k: 0 };
        }
        let mut r = *self;
        loop {
            let l = r.lower();
            if l.c.iter().all(|x| x % 2 == 0) {
                r = ZwS { c: [l.c[0] / 2, l.c[1] / 2, l.c[2] / 2, l.c[3] / 2], k: r.k + 1 };
            } else {
                return r;
            }
        }
    }
}

impl Ring for ZwS {
    const EXACT: bool = true;
    fn zero() -> ZwS {
        ZwS { c: [0; 4], k: 0 }
    }
    fn one() -> ZwS {
        ZwS { c: [1, 0, 0, 0], k: 0 }
    }
    fn from_int(i: i64) -> ZwS {
        ZwS { c: [i as i128, 0, 0, 0], k: 0 }
    }
    #[inline]
    fn add(&self, o: &ZwS) -> ZwS {
        if self.cz() {
            return *o;
        }
        if o.cz() {
            return *self;
        }
        let k = self.k.min(o.k);
        if self.k - k > 250 || o.k - k > 250 {
            ovf();
            return *self;
        }
        let a = self.to_k(k);
        let b = o.to_k(k);
        ZwS { c: [cadd(a.c[0], b.c[0]), cadd(a.c[1], b.c[1]), cadd(a.c[2], b.c[2]), cadd(a.c[3], b.c[3])], k }
    }
    #[inline]
    fn mul(&self, o: &ZwS) -> ZwS {
        let mut c = [0i128; 4];
        for i in 0..4 {
            if self.c[i] == 0 {
                continue;
            }
            for j in 0..4 {
                if o.c[j] == 0 {
                    continue;
                }
                let v = cmul(self.c[i], o.c[j]);
                let p = i + j;
                if p < 4 {
                    c[p] = cadd(c[p], v)
                } else {
                    c[p - 4] = csub(c[p - 4], v)
                }
            }
        }
        ZwS { c, k: self.k.checked_add(o.k).unwrap_or_else(|| ovf() as i32) }
    }
    fn neg(&self) -> ZwS {
        ZwS { c: [-self.c[0], -self.c[1], -self.c[2], -self.c[3]], k: self.k }
    }
    fn conj(&self) -> ZwS {
        ZwS { c: [self.c[0], -self.c[3], -self.c[2], -self.c[1]], k: self.k }
    }
    fn is_zero(&self) -> bool {
        self.cz()
    }
    fn sqrt2_pow(k: i32) -> ZwS {
        ZwS { c: [1, 0, 0, 0], k }
    }
    fn phase(num: i64, den: i64) -> Option<ZwS> {
        if den == 0 || 4 % den != 0 {
            return None;
        }
        Some(ZwS::omega_pow(num * (4 / den)))
    }
    fn to_c64(&self) -> Complex64 {
        self.to_big().to_c64()
    }
    fn close(&self, o: &ZwS, _tol: f64) -> bool {
        self.eqv(o)
    }
}

// ---------------------------------------------------------------------------------------------
// float ring (tolerance track)
// ---------------------------------------------------------------------------------------------

#[derive(Clone, Copy, Debug)]
pub struct Cf(pub Complex64);

impl Ring for Cf {
    const EXACT: bool = false;
    fn zero() -> Cf {
        Cf(Complex64::new(0.0, 0.0))
    }
    fn one() -> Cf {
        Cf(Complex64::new(1.0, 0.0))
    }
    fn from_int(i: i64) -> Cf {
        Cf(Complex64::new(i as f64, 0.0))
    }
    fn add(&self, o: &Cf) -> Cf {
        Cf(self.0 + o.0)
    }
    fn mul(&self, o: &Cf) -> Cf {
        Cf(self.0 * o.0)
    }
    fn neg(&self) -> Cf {
        Cf(-self.0)
    }
    fn conj(&self) -> Cf {
        Cf(self.0.conj())
    }
    fn is_zero(&self) -> bool {
        self.0.re == 0.0 && self.0.im == 0.0
    }
    fn sqrt2_pow(k: i32) -> Cf {
        Cf(Complex64::new((k as f64 / 2.0).exp2(), 0.0))
    }
    fn phase(num: i64, den: i64) -> Option<Cf> {
        if den == 0 {
            return None;
        }
        // exact values on the eight octants to keep Clifford+T parts clean
        let a = std::f64::consts::PI * (num as f64) / (den as f64);
        Some(Cf(Complex64::new(a.cos(), a.sin())))
    }
    fn to_c64(&self) -> Complex64 {
        self.0
    }
    fn close(&self, o: &Cf, tol: f64) -> bool {
        (self.0 - o.0).norm() <= tol
    }
}

// ---------------------------------------------------------------------------------------------
// tensor helpers
// ---------------------------------------------------------------------------------------------

pub fn max_abs<R: Ring>(a: &[R]) -> f64 {
    a.iter().map(|x| x.to_c64().norm()).fold(0.0, f64::max)
}

/// entry-wise equality: exact for exact rings, relative tolerance (to the largest entry) otherwise
pub fn tensor_eq<R: Ring>(a: &[R], b: &[R], rel: f64) -> bool {
    if a.len() != b.len() {
        return false;
    }
    if R::EXACT {
        a.iter().zip(b).all(|(x, y)| x.close(y, 0.0))
    } else {
        let m = max_abs(a).max(max_abs(b)).max(1e-300);
        a.iter().zip(b).all(|(x, y)| x.close(y, rel * m))
    }
}

/// a = c * b for some non-zero c, or both zero
pub fn tensor_prop<R: Ring>(a: &[R], b: &[R], rel: f64) -> bool {
    if a.len() != b.len() {
        return false;
    }
    if R::EXACT {
        match a.iter().position(|x| !x.is_zero()) {
            None => b.iter().all(|x| x.is_zero()),
            Some(i) => {
                if b[i].is_zero() {
                    return false;
                }
                a.iter().zip(b).all(|(x, y)| x.mul(&b[i]).close(&y.mul(&a[i]), 0.0))
            }
        }
    } else {
        let (ma, mb) = (max_abs(a), max_abs(b));
        if ma < 1e-300 || mb < 1e-300 {
            return ma < 1e-300 && mb < 1e-300;
        }
        // pivot on the largest entry of a
        let i = (0..a.len()).max_by(|&i, &j| a[i].to_c64().norm().partial_cmp(&a[j].to_c64().norm()).unwrap()).unwrap();
        if b[i].to_c64().norm() < rel * mb {
            return false;
        }
        let tol = rel * ma * mb;
        a.iter().zip(b).all(|(x, y)| x.mul(&b[i]).close(&y.mul(&a[i]), tol))
    }
}

#[cfg(test)]
mod tests {
    use super::*;
    #[test]
    fn sqrt2_squares_to_two() {
        let s = Zw::sqrt2_pow(1);
        let two = s.mul(&s);
        assert!(two.eqv(&Zw::from_int(2)));
        let w = Zw::omega_pow(1);
        let s2 = w.add(&Zw::omega_pow(3).neg());
        assert!(s2.eqv(&s));
        assert!((s.to_c64().re - 2f64.sqrt()).abs() < 1e-12);
        let x = Zw::new([3, -1, 4, 1], -5);
        assert!(x.canon().eqv(&x));
        let y = x.mul(&Zw::sqrt2_pow(7)).mul(&Zw::sqrt2_pow(-7));
        assert!(y.eqv(&x));
        assert_eq!(x.mul(&Zw::from_int(2)).key(), x.mul(&s).mul(&s).key());
    }
    #[test]
    fn small_matches_big() {
        let a = ZwS { c: [3, -1, 4, 1], k: -5 };
        let b = ZwS { c: [-2, 7, 0, 5], k: 2 };
        assert!(a.mul(&b).to_big().eqv(&a.to_big().mul(&b.to_big())));
        assert!(a.add(&b).to_big().eqv(&a.to_big().add(&b.to_big())));
        assert_eq!(a.canon().to_big().key(), a.to_big().key());
    }
}
