//! Reference ZX-diagram and its textbook state-sum semantics.
//!
//! Every spider and every boundary carries one bit.  A Z spider with phase a contributes e^{i a b};
//! an X spider is a Z spider whose incident edges all have their kind toggled; a plain edge is a
//! delta, a Hadamard edge is (-1)^{ab}/sqrt2.  Tensor index = boundary bits, inputs first then
//! outputs, first wire most significant.

use crate::ring::*;
use std::collections::BTreeMap;

#[derive(Clone, Copy, Debug, PartialEq, Eq, PartialOrd, Ord, Hash)]
pub enum Kind {
    B,
    Z,
    X,
}

#[derive(Clone, Debug)]
pub struct RDiagram<R: Ring> {
    /// vertex ids are arbitrary; data by id
    pub verts: BTreeMap<usize, (Kind, i64, i64)>, // kind, phase numerator, phase denominator (units of pi)
    pub edges: Vec<(usize, usize, bool)>,         // (s, t, hadamard?)
    pub inputs: Vec<usize>,
    pub outputs: Vec<usize>,
    pub scalar: R,
}

#[derive(Clone, Debug, PartialEq, Eq)]
pub enum Malformed {
    BoundaryDegree(usize, usize),
    BoundaryNotListed(usize),
    BoundaryListedTwice(usize),
    ListedNotBoundary(usize),
    ListedMissing(usize),
    SelfLoop(usize),
    ParallelEdge(usize, usize),
    EdgeToMissing(usize, usize),
    Phase(usize),
    TooLarge(usize),
}

impl<R: Ring> RDiagram<R> {
    pub fn new(scalar: R) -> Self {
        RDiagram { verts: BTreeMap::new(), edges: vec![], inputs: vec![], outputs: vec![], scalar }
    }

    /// well-formedness: simple graph, each boundary has degree 1 and is listed exactly once, lists hold boundaries only
    pub fn check(&self) -> Result<(), Malformed> {
        let mut deg: BTreeMap<usize, usize> = self.verts.keys().map(|&v| (v, 0)).collect();
        let mut seen = std::collections::BTreeSet::new();
        for &(s, t, _) in &self.edges {
            if !self.verts.contains_key(&s) || !self.verts.contains_key(&t) {
                return Err(Malformed::EdgeToMissing(s, t));
            }
            if s == t {
                return Err(Malformed::SelfLoop(s));
            }
            if !seen.insert((s.min(t), s.max(t))) {
                return Err(Malformed::ParallelEdge(s, t));
            }
            *deg.get_mut(&s).unwrap() += 1;
            *deg.get_mut(&t).unwrap() += 1;
        }
        let mut listed: BTreeMap<usize, usize> = BTreeMap::new();
        for &b in self.inputs.iter().chain(self.outputs.iter()) {
            match self.verts.get(&b) {
                None => return Err(Malformed::ListedMissing(b)),
                Some((Kind::B, _, _)) => {}
                Some(_) => return Err(Malformed::ListedNotBoundary(b)),
            }
            *listed.entry(b).or_insert(0) += 1;
        }
        for (&v, &(k, _, d)) in &self.verts {
            if k == Kind::B {
                if deg[&v] != 1 {
                    return Err(Malformed::BoundaryDegree(v, deg[&v]));
                }
                match listed.get(&v) {
                    None => return Err(Malformed::BoundaryNotListed(v)),
                    Some(1) => {}
                    Some(_) => return Err(Malformed::BoundaryListedTwice(v)),
                }
            } else if d == 0 {
                return Err(Malformed::Phase(v));
            }
        }
        Ok(())
    }

    pub fn num_spiders(&self) -> usize {
        self.verts.values().filter(|x| x.0 != Kind::B).count()
    }

    /// Factor list of the state sum: variables 0..nb are the boundaries (inputs then outputs), the rest spiders.
    fn factors(&self) -> Result<(usize, usize, Vec<Factor<R>>), Malformed> {
        self.check()?;
        let bs: Vec<usize> = self.inputs.iter().chain(self.outputs.iter()).copied().collect();
        let sp: Vec<usize> = self.verts.iter().filter(|(_, d)| d.0 != Kind::B).map(|(&v, _)| v).collect();
        let idx: BTreeMap<usize, usize> = bs.iter().chain(sp.iter()).enumerate().map(|(i, &v)| (v, i)).collect();
        let mut fs = vec![];
        for &v in &sp {
            let (_, n, d) = self.verts[&v];
            let ph = R::phase(n, d).ok_or(Malformed::Phase(v))?;
            if !ph.close(&R::one(), 0.0) || !R::EXACT {
                fs.push(Factor { vars: vec![idx[&v]], tab: vec![R::one(), ph] });
            }
        }
        let h = R::sqrt2_pow(-1);
        for &(s, t, had) in &self.edges {
            let mut hk = had;
            if self.verts[&s].0 == Kind::X {
                hk = !hk
            }
            if self.verts[&t].0 == Kind::X {
                hk = !hk
            }
            let (a, b) = (idx[&s].min(idx[&t]), idx[&s].max(idx[&t]));
            // table index = bit(a)*2 + bit(b)   (first var most significant)
            let tab = if hk { vec![h.clone(), h.clone(), h.clone(), h.neg()] } else { vec![R::one(), R::zero(), R::zero(), R::one()] };
            fs.push(Factor { vars: vec![a, b], tab });
        }
        Ok((bs.len(), sp.len(), fs))
    }

    /// Obviously-correct evaluation: sum over all spider assignments.  Limited to nb + ns <= 26.
    pub fn eval_naive(&self) -> Result<Vec<R>, Malformed> {
        self.check()?;
        let bs: Vec<usize> = self.inputs.iter().chain(self.outputs.iter()).copied().collect();
        let sp: Vec<usize> = self.verts.iter().filter(|(_, d)| d.0 != Kind::B).map(|(&v, _)| v).collect();
        let (nb, ns) = (bs.len(), sp.len());
        if nb + ns > 26 {
            return Err(Malformed::TooLarge(nb + ns));
        }
        let idx: BTreeMap<usize, usize> = bs.iter().chain(sp.iter()).enumerate().map(|(i, &v)| (v, i)).collect();
        let mut ph: Vec<R> = vec![];
        for &v in &sp {
            let (_, n, d) = self.verts[&v];
            ph.push(R::phase(n, d).ok_or(Malformed::Phase(v))?);
        }
        let mut es = vec![];
        let mut hcount = 0i32;
        for &(s, t, had) in &self.edges {
            let mut hk = had;
            if self.verts[&s].0 == Kind::X {
                hk = !hk
            }
            if self.verts[&t].0 == Kind::X {
                hk = !hk
            }
            if hk {
                hcount += 1
            }
            es.push((idx[&s], idx[&t], hk));
        }
        let norm = R::sqrt2_pow(-hcount).mul(&self.scalar);
        let mut out = Vec::with_capacity(1 << nb);
        for b in 0..(1u64 << nb) {
            let mut acc = R::zero();
            'a: for a in 0..(1u64 << ns) {
                let bit = |i: usize| -> u64 {
                    if i < nb {
                        (b >> (nb - 1 - i)) & 1
                    } else {
                        (a >> (i - nb)) & 1
                    }
                };
                let mut neg = false;
                for &(s, t, h) in &es {
                    if h {
                        if bit(s) & bit(t) == 1 {
                            neg = !neg
                        }
                    } else if bit(s) != bit(t) {
                        continue 'a;
                    }
                }
                let mut term = R::one();
                for i in 0..ns {
                    if (a >> i) & 1 == 1 {
                        term = term.mul(&ph[i]);
                    }
                }
                acc = if neg { acc.sub(&term) } else { acc.add(&term) };
            }
            out.push(acc.mul(&norm));
        }
        Ok(out)
    }

    /// Variable-elimination evaluation (same semantics, polynomial in treewidth).
    pub fn eval_elim(&self) -> Result<Vec<R>, Malformed> {
        let (nb, ns, fs) = self.factors()?;
        if nb > 20 {
            return Err(Malformed::TooLarge(nb));
        }
        let t = contract(nb, nb + ns, fs)?;
        Ok(t.into_iter().map(|x| x.mul(&self.scalar)).collect())
    }

    /// default evaluator: naive when small, elimination otherwise
    pub fn eval(&self) -> Result<Vec<R>, Malformed> {
        let nb = self.inputs.len() + self.outputs.len();
        if nb + self.num_spiders() <= 10 {
            self.eval_naive()
        } else {
            self.eval_elim()
        }
    }
}

#[derive(Clone, Debug)]
pub struct Factor<R: Ring> {
    pub vars: Vec<usize>, // sorted ascending; table index: first var most significant
    pub tab: Vec<R>,
}

fn multiply_all<R: Ring>(fs: &[Factor<R>]) -> Factor<R> {
    let mut vars: Vec<usize> = fs.iter().flat_map(|f| f.vars.iter().copied()).collect();
    vars.sort();
    vars.dedup();
    let n = vars.len();
    let pos: BTreeMap<usize, usize> = vars.iter().enumerate().map(|(i, &v)| (v, i)).collect();
    // for each factor, positions of its vars in the joint var list
    let maps: Vec<Vec<usize>> = fs.iter().map(|f| f.vars.iter().map(|v| pos[v]).collect()).collect();
    let mut tab = Vec::with_capacity(1 << n);
    for a in 0..(1usize << n) {
        let bit = |p: usize| (a >> (n - 1 - p)) & 1;
        let mut acc = R::one();
        let mut zero = false;
        for (f, m) in fs.iter().zip(&maps) {
            let mut ix = 0;
            for &p in m {
                ix = (ix << 1) | bit(p);
            }
            let e = &f.tab[ix];
            if e.is_zero() {
                zero = true;
                break;
            }
            acc = acc.mul(e);
        }
        tab.push(if zero { R::zero() } else { acc });
    }
    Factor { vars, tab }
}

fn sum_out<R: Ring>(f: &Factor<R>, v: usize) -> Factor<R> {
    let p = f.vars.iter().position(|&x| x == v).unwrap();
    let n = f.vars.len();
    let mut vars = f.vars.clone();
    vars.remove(p);
    let m = n - 1;
    let mut tab = Vec::with_capacity(1 << m);
    for a in 0..(1usize << m) {
        // insert a bit at position p (from the most significant side)
        let hi = a >> (m - p);
        let lo = a & ((1 << (m - p)) - 1);
        let i0 = (hi << (m - p + 1)) | lo;
        let i1 = i0 | (1 << (m - p));
        tab.push(f.tab[i0].add(&f.tab[i1]));
    }
    Factor { vars, tab }
}

/// contract all factors, keeping variables < keep; variables keep..nvars are summed out (greedy min-width order)
pub fn contract<R: Ring>(keep: usize, nvars: usize, mut fs: Vec<Factor<R>>) -> Result<Vec<R>, Malformed> {
    let mut alive: Vec<bool> = (0..nvars).map(|v| v >= keep).collect();
    let mut free_scalar = R::one();
    loop {
        // pick the variable whose elimination creates the smallest factor
        let mut best: Option<(usize, usize)> = None;
        for v in keep..nvars {
            if !alive[v] {
                continue;
            }
            let mut vs: Vec<usize> = fs.iter().filter(|f| f.vars.contains(&v)).flat_map(|f| f.vars.iter().copied()).collect();
            vs.sort();
            vs.dedup();
            let w = vs.len();
            if best.is_none() || w < best.unwrap().1 {
                best = Some((v, w));
            }
        }
        let Some((v, w)) = best else { break };
        alive[v] = false;
        if w == 0 {
            // isolated variable with no factor: sums to 2
            free_scalar = free_scalar.mul(&R::from_int(2));
            continue;
        }
        if w > 24 {
            return Err(Malformed::TooLarge(w));
        }
        let (mine, rest): (Vec<_>, Vec<_>) = fs.into_iter().partition(|f| f.vars.contains(&v));
        fs = rest;
        let prod = multiply_all(&mine);
        fs.push(sum_out(&prod, v));
    }
    // remaining factors are over kept variables only
    let mut all = fs;
    all.push(Factor { vars: (0..keep).collect(), tab: vec![R::one(); 1 << keep] });
    let f = multiply_all(&all);
    debug_assert_eq!(f.vars.len(), keep);
    Ok(f.tab.into_iter().map(|x| x.mul(&free_scalar)).collect())
}

// ---------------------------------------------------------------------------------------------
// tensor algebra on evaluated tensors  (index = inputs then outputs, first most significant)
// ---------------------------------------------------------------------------------------------

/// T(h) o T(g) where g: a -> b wires and h: b -> c wires
pub fn compose<R: Ring>(g: &[R], h: &[R], a: usize, b: usize, c: usize) -> Vec<R> {
    let mut out = vec![R::zero(); 1 << (a + c)];
    for i in 0..(1usize << a) {
        for o in 0..(1usize << c) {
            let mut acc = R::zero();
            for m in 0..(1usize << b) {
                let x = &g[(i << b) | m];
                let y = &h[(m << c) | o];
                if !x.is_zero() && !y.is_zero() {
                    acc = acc.add(&x.mul(y));
                }
            }
            out[(i << c) | o] = acc;
        }
    }
    out
}

/// tensor product: g: a->b, h: c->d gives a+c -> b+d with g's wires first in each list
pub fn kron<R: Ring>(g: &[R], h: &[R], a: usize, b: usize, c: usize, d: usize) -> Vec<R> {
    let mut out = vec![R::zero(); 1 << (a + b + c + d)];
    for gi in 0..(1usize << a) {
        for go in 0..(1usize << b) {
            for hi in 0..(1usize << c) {
                for ho in 0..(1usize << d) {
                    let ix = (((((gi << c) | hi) << b) | go) << d) | ho;
                    out[ix] = g[(gi << b) | go].mul(&h[(hi << d) | ho]);
                }
            }
        }
    }
    out
}

/// conjugate transpose of g: a -> b
pub fn dagger<R: Ring>(g: &[R], a: usize, b: usize) -> Vec<R> {
    let mut out = vec![R::zero(); 1 << (a + b)];
    for i in 0..(1usize << a) {
        for o in 0..(1usize << b) {
            out[(o << a) | i] = g[(i << b) | o].conj();
        }
    }
    out
}

#[cfg(test)]
mod tests {
    use super::*;

    fn z_spider(n_in: usize, n_out: usize, num: i64, den: i64, kind: Kind) -> RDiagram<Zw> {
        let mut d = RDiagram::new(Zw::one());
        d.verts.insert(100, (kind, num, den));
        for i in 0..n_in + n_out {
            d.verts.insert(i, (Kind::B, 0, 1));
            d.edges.push((i, 100, false));
            if i < n_in {
                d.inputs.push(i)
            } else {
                d.outputs.push(i)
            }
        }
        d
    }

    #[test]
    fn z_spider_semantics() {
        let d = z_spider(1, 1, 1, 4, Kind::Z);
        let t = d.eval_naive().unwrap();
        assert!(t[0].eqv(&Zw::one()) && t[1].is_zero() && t[2].is_zero() && t[3].eqv(&Zw::omega_pow(1)));
        let e = d.eval_elim().unwrap();
        assert!(tensor_eq(&t, &e, 0.0));
    }

    #[test]
    fn x_spider_is_hadamard_conjugate() {
        // X spider 1->1 with phase pi is the NOT gate
        let d = z_spider(1, 1, 1, 1, Kind::X);
        let t = d.eval_naive().unwrap();
        assert!(t[0].is_zero() && t[1].eqv(&Zw::one()) && t[2].eqv(&Zw::one()) && t[3].is_zero(), "{:?}", t);
        // X spider 0->1 phase 0 = sqrt2 |0>
        let d = z_spider(0, 1, 0, 1, Kind::X);
        let t = d.eval().unwrap();
        assert!(t[0].eqv(&Zw::sqrt2_pow(1)) && t[1].is_zero());
        assert!(tensor_eq(&t, &d.eval_elim().unwrap(), 0.0));
    }

    #[test]
    fn hadamard_wire_and_bare_wire() {
        let mut d = RDiagram::new(Zw::one());
        d.verts.insert(0, (Kind::B, 0, 1));
        d.verts.insert(1, (Kind::B, 0, 1));
        d.edges.push((0, 1, true));
        d.inputs = vec![0];
        d.outputs = vec![1];
        let t = d.eval_naive().unwrap();
        let h = Zw::sqrt2_pow(-1);
        assert!(t[0].eqv(&h) && t[1].eqv(&h) && t[2].eqv(&h) && t[3].eqv(&h.neg()));
        assert!(tensor_eq(&t, &d.eval_elim().unwrap(), 0.0));
        d.edges[0].2 = false;
        let t = d.eval_elim().unwrap();
        assert!(t[0].eqv(&Zw::one()) && t[1].is_zero() && t[3].eqv(&Zw::one()));
    }

    #[test]
    fn isolated_spider_and_empty() {
        let mut d = RDiagram::new(Zw::one());
        assert!(d.eval_naive().unwrap()[0].eqv(&Zw::one()));
        assert!(d.eval_elim().unwrap()[0].eqv(&Zw::one()));
        d.verts.insert(0, (Kind::Z, 1, 4));
        let want = Zw::one().add(&Zw::omega_pow(1));
        assert!(d.eval_naive().unwrap()[0].eqv(&want));
        assert!(d.eval_elim().unwrap()[0].eqv(&want));
        d.verts.insert(1, (Kind::X, 0, 1));
        let want2 = want.mul(&Zw::from_int(2));
        assert!(d.eval_naive().unwrap()[0].eqv(&want2));
        assert!(d.eval_elim().unwrap()[0].eqv(&want2));
    }

    #[test]
    fn cnot_diagram() {
        // Z on control, X on target, plain edge, scalar sqrt2
        let mut d = RDiagram::new(Zw::sqrt2_pow(1));
        for b in 0..4 {
            d.verts.insert(b, (Kind::B, 0, 1));
        }
        d.verts.insert(4, (Kind::Z, 0, 1));
        d.verts.insert(5, (Kind::X, 0, 1));
        d.edges = vec![(0, 4, false), (4, 2, false), (1, 5, false), (5, 3, false), (4, 5, false)];
        d.inputs = vec![0, 1];
        d.outputs = vec![2, 3];
        for t in [d.eval_naive().unwrap(), d.eval_elim().unwrap()] {
            for i in 0..4usize {
                for o in 0..4usize {
                    let want = if (i >> 1) == 1 { i ^ 1 } else { i } == o;
                    assert_eq!(t[i * 4 + o].eqv(&Zw::one()), want);
                    assert_eq!(t[i * 4 + o].is_zero(), !want);
                }
            }
        }
    }
}
